// positive / negative fixtures for the order-taint rule and the nondeterminism denylist of C17
use std::collections::HashMap;
use std::hash::BuildHasher;

pub fn bad_unsorted(m: &HashMap<i64, String>) -> Vec<(i64, String)> {
    m.iter().map(|(k, v)| (*k, v.clone())).collect::<Vec<_>>()
}

pub fn bad_conditional_sort(m: &HashMap<i64, String>, skip: bool) -> Vec<(i64, String)> {
    let mut v = m.iter().map(|(k, v)| (*k, v.clone())).collect::<Vec<_>>();
    if !skip {
        v.sort_by_key(|x| x.0);
    }
    v
}

pub fn bad_random_state() -> u64 {
    std::collections::hash_map::RandomState::new().hash_one(1u8)
}

pub fn bad_time() -> u128 {
    std::time::SystemTime::now().duration_since(std::time::UNIX_EPOCH).map(|d| d.as_nanos()).unwrap_or(0)
}

pub fn good_sorted(m: &HashMap<i64, String>) -> Vec<(i64, String)> {
    let mut v = m.iter().map(|(k, v)| (*k, v.clone())).collect::<Vec<_>>();
    v.sort_by_key(|x| x.0);
    v
}

pub fn bad_process_state() -> bool {
    use std::sync::atomic::{AtomicBool, Ordering};
    static FIRST: AtomicBool = AtomicBool::new(true);
    FIRST.swap(false, Ordering::Relaxed)
}

pub static GOOD_TABLE: [u8; 3] = [1, 2, 3];

// set algebra and generic consumers expose the hash order just like `iter` does
pub fn bad_set_difference(a: &std::collections::HashSet<i64>, b: &std::collections::HashSet<i64>) -> Vec<i64> {
    a.difference(b).copied().collect()
}

pub fn bad_extend_from_set(a: std::collections::HashSet<i64>) -> Vec<i64> {
    let mut v = Vec::new();
    v.extend(a);
    v
}

pub fn bad_debug_format(m: &HashMap<i64, String>) -> String {
    format!("{:?}", m)
}

// point operations do not
pub fn good_point_ops(m: &mut HashMap<i64, String>, k: i64) -> (bool, usize, Option<String>) {
    m.insert(k + 1, String::new());
    (m.contains_key(&k), m.len(), m.remove(&k))
}

// an ordered container sorts by its unique key
pub fn good_btree_collect(m: HashMap<i64, String>) -> Vec<(i64, String)> {
    m.into_iter().collect::<std::collections::BTreeMap<_, _>>().into_iter().collect()
}

// a closure that is run per element in hash order and records something about that order
pub fn bad_retain_last_visited(m: &mut HashMap<i64, String>) -> Option<i64> {
    let mut last = None;
    m.retain(|k, _| { last = Some(*k); true });
    last
}

pub fn bad_map_counter(m: &HashMap<i64, String>) -> Vec<(i64, usize)> {
    let mut n = 0usize;
    let mut v = m.iter().map(|(k, _)| { n += 1; (*k, n) }).collect::<Vec<_>>();
    v.sort_by_key(|x| x.0);
    v
}

pub fn good_retain_pure(m: &mut HashMap<i64, String>) -> usize {
    m.retain(|k, v| *k >= 0 && !v.is_empty());
    m.len()
}
