// positive fixture for the absolute-path lint of C16: every template below must be flagged on every run
use quote::quote;
pub fn bad_std(ident: &Ident) -> TokenStream {
    quote! { fn f() -> ::std::option::Option<#ident> { ::std::option::Option::None } }
}
pub fn bad_bare(ident: &Ident) -> TokenStream {
    quote! { fn f() -> Option<#ident> { None } }
}
pub fn bad_macro() -> TokenStream {
    quote! { fn f() { assert!(true); } }
}
pub fn good(ident: &Ident) -> TokenStream {
    quote! { fn f(x: #ident) -> ::core::option::Option<#ident> { use ::core::option::Option::Some; Some(x) } }
}
