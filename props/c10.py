"""C10 - every documented combination of features, modes and parameters compiles (DESIGN.md 5).
  1. catalogue agreement : the documented features / modes / parameters (read from the `///` docs of the derive) are
     exactly what the parsers accept (read with syn);
  2. accept witnesses    : every feature x mode x gapless/holes as a single-feature instance (the helpers it needs must
     be auto-enabled), every pair of features, the auto-steering sets, the full mode matrix, name/vis/struct_name
     parameters, features split over several attributes (expansions must be token-identical to the one-attribute
     form); witness enums derive only Clone + Copy;
  3. generator rules that make the witnesses representative of all 2^17 subsets: check() functions only ever switch
     helpers on (monotone), generate() functions see only their own feature, the declaration and the name table
     (so a template depends on its own mode and the enum's shape only), and resolve() = enable; auto; enable,
     unconditionally."""
import json, os, re
from lib import runner
from rules import gen as G, catalogue as C
from rules.ctx import Ctx

PROP = 'C10'
FEATURE_FLOOR = 18
MODE_FLOOR = 14

def check_instance(inst, F, ctx, extra):
    # an instance that reached this point compiled: it is an accept witness
    fs = tuple(sorted(inst.feats))
    modes = tuple(sorted((f, p.get('mode')) for f, p in inst.feats.items() if 'mode' in p))
    ctx.nontrivial.add((fs, modes, inst.gapless))
    ctx.ok('accept-witness', inst)
    # every requested feature must have produced its item (a feature that is silently dropped also "compiles")
    TR = {'Debug': ('core::fmt::Debug', 'E'), 'Display': ('core::fmt::Display', 'E'), 'FromStr': ('core::str::traits::FromStr', 'E'), 'TryFrom': ('core::convert::TryFrom', 'E'),
          'Into': ('core::convert::From', 'int'), 'IntoStr': ('core::convert::From', 'ref')}
    for f, p in inst.feats.items():
        if f == 'sorted':
            continue
        if f in TR:
            tr, who = TR[f]
            ok = False
            for im in inst.impls:
                if im.get('trait') == tr and im['from_expansion']:
                    st = inst.crate.T(im['self_ty'])
                    if (who == 'E' and st.get('path') == inst.enum_path) or (who != 'E' and st['k'] == who):
                        ok = True
            if not ok:
                ctx.violation('requested-item-missing', inst, f, 'feature `%s` is requested but the derive produced no impl of %s' % (f, tr), key='C10/requested-item-missing/%s' % f, construct='src/parser/attr.rs::parse_attrs / src/parser/feature.rs (the feature list)')
        else:
            nm = p.get('name', f)
            if inst.assoc.get(nm) is None:
                ctx.violation('requested-item-missing', inst, f, 'feature `%s` is requested but the derive produced no item named `%s` (items: %s)' % (f, nm, sorted(inst.assoc)[:12]), key='C10/requested-item-missing/%s' % f, construct='src/parser/attr.rs::parse_attrs / src/parser/feature.rs (the feature list)')
            else:
                ctx.ok('requested-item-present', inst)
                # a documented `vis` value that is silently dropped also "compiles": the item enabled with it must carry the
                # visibility the documentation promises for that value (C15's rule, applied to the three documented values)
                if p.get('vis') in ('', 'pub(crate)', 'pub'):
                    from props.c15 import want_vis
                    wv = want_vis(inst, p['vis'])
                    if inst.assoc[nm]['vis'] != wv:
                        ctx.violation('parameter-dropped', inst, f, '`%s` is requested with vis = %r but has resolved visibility %s, documented: %s (enum visibility %s)' % (
                            nm, p['vis'], inst.assoc[nm]['vis'], wv, inst.adt['vis']), key='C10/parameter-dropped/%s.vis' % f, construct='src/parser/params.rs::get_vis_name')
                    else:
                        ctx.ok('parameter-honoured', inst)
            # a requested struct_name is a documented parameter too: the struct the function returns must carry it
            if f in ('iter', 'names') and inst.assoc.get(nm) is not None:
                sn = p.get('struct_name') or (inst.enum_name + ('Iter' if f == 'iter' else 'Names'))
                out = inst.crate.T(inst.assoc[nm].get('output')) if inst.assoc[nm].get('output') is not None else {}
                if out.get('path') != inst.mod + '::' + sn:
                    ctx.violation('requested-item-missing', inst, f, '`%s` returns %s, required the struct named by %s: `%s`' % (
                        nm, out.get('path', out.get('s')), 'struct_name' if p.get('struct_name') else 'the documented default', sn), key='C10/requested-item-missing/%s.struct_name' % f,
                        construct='src/generator/names.rs::Names::new (struct names)')
                else:
                    ctx.ok('requested-item-present', inst)
    cov = extra.setdefault('cov', set()) if extra is not None else set()
    for f, p in inst.feats.items():
        ctx.by_rule['covers:%s/%s/%s' % (f, p.get('mode', '-'), 'gapless' if inst.gapless else 'holes')] = 1

def main(tier, seed, t0):
    ctx = Ctx(PROP)
    gst, gd = G.stage_gen()
    g = G.load(gd)
    # ---- 1. catalogue agreement
    doc = C.documented(g)
    acc = C.accepted(g)
    if not doc or len(doc) < FEATURE_FLOOR or sum(len(v['modes']) for v in doc.values()) < MODE_FLOOR:
        ctx.error('documentation catalogue could not be read (features: %s)' % (len(doc) if doc else None))
    elif len(acc) < FEATURE_FLOOR:
        ctx.error('only %d feature parsers found' % len(acc))
    else:
        diffs = C.compare(doc, acc)
        for key, msg in diffs:
            ctx.violation('catalogue', None, key.split('/')[1], msg, key='C10/' + key, construct='src/lib.rs (documentation) vs the feature\'s parse()')
        ctx.ok('catalogue', n=sum(1 + len(v['modes']) + len(v['params']) for v in doc.values()))
        vw = C.vis_whitelist(g)
        if vw is not None and set(vw) != {'', 'pub(crate)', 'pub'}:
            ctx.violation('catalogue', None, 'vis', 'accepted vis values are %s, documented: "", "pub(crate)", "pub"' % vw, key='C10/catalogue/vis-values', construct='src/parser/params.rs::get_vis_name')
    # ---- 3. generator rules
    n_checks = 0
    for f in g['files']:
        for fn in f.get('fns', []):
            if fn['name'].startswith('check') and f['file'].startswith('feature/'):
                n_checks += 1
                for a in fn['assigns']:
                    if not (re.search(r'\. (enabled|with_offset)$', a['lhs']) and a['rhs'].strip() == 'true'):
                        ctx.violation('monotone', None, '%s::%s' % (f['file'], fn['name']), 'dependency propagation must only ever switch helpers on, but %s::%s assigns `%s = %s`' % (f['file'], fn['name'], a['lhs'], a['rhs']),
                                      key='C10/monotone/%s' % f['file'], construct='src/%s::%s' % (f['file'], fn['name']))
                    else:
                        ctx.ok('monotone')
            if fn['name'] in ('generate',) and f['file'].startswith('feature/'):
                if any('Features' in p and 'Features0' not in p for p in fn['params']):
                    ctx.violation('locality', None, '%s::generate' % f['file'], 'generate() takes the feature set as a parameter (%s): its template may depend on other features, so single-feature witnesses no longer represent all combinations' % fn['params'],
                                  key='C10/locality/%s' % f['file'], construct='src/%s::generate' % f['file'])
                else:
                    ctx.ok('locality')
            if f['file'] == 'generator/features.rs' and fn['name'] == 'resolve':
                seq = [(c['method'], tuple(c['conds'])) for c in fn['str_calls'] if c['method'].startswith('resolve_')]
                if seq != [('resolve_enable', ()), ('resolve_auto', ()), ('resolve_enable', ())]:
                    ctx.violation('resolve-order', None, 'Features::resolve', 'resolve() is %s, required: resolve_enable; resolve_auto; resolve_enable, each unconditional (a mode picked by auto may need helpers that only the second pass enables)' % seq,
                                  key='C10/resolve-order', construct='src/generator/features.rs::Features::resolve')
                else:
                    ctx.ok('resolve-order')
    if n_checks < 15:
        ctx.error('only %d check functions found' % n_checks)
    # ---- 2. witnesses
    st, d = runner.stage_inst(tier, seed)
    extra = {}
    ictx, n = runner.run_instances('props.c10', d, extra=extra)
    covers = {k for k in ictx.by_rule if k.startswith('covers:')}
    ictx.by_rule = {k: v for k, v in ictx.by_rule.items() if not k.startswith('covers:')}
    ctx.merge(ictx)
    # every documented (feature, mode, shape) must be witnessed
    missing = []
    if doc:
        for f, v in doc.items():
            if f == 'sorted':
                continue
            for m in (v['modes'] or ['-']):
                for shape in ('gapless', 'holes'):
                    if f == 'iter' and m == 'range' and shape == 'holes':
                        continue
                    if f == 'iter' and m == 'match':
                        continue          # documented but not accepted: reported by the catalogue rule (known finding)
                    mm = m if m != 'auto' else '-'
                    if 'covers:%s/%s/%s' % (f, mm, shape) not in covers:
                        missing.append((f, m, shape))
    if missing:
        ctx.error('no accept witness for %s' % missing[:8])
    # split-attribute identity (from the expansion stage)
    est, ex = runner.stage_expand(tier, seed)
    fams = {}
    for x in ex['instances']:
        if x['kind'] == 'split':
            fams.setdefault(x['family'], []).append(x)
    for fid, ms in sorted(fams.items()):
        items = {m['id']: [i['tokens'] for i in ex['mods'].get(m['id'], []) if i['kind'] == 'item'] for m in ms}
        ref = items[ms[0]['id']]
        bad = [m for m in ms[1:] if items[m['id']] != ref]
        if bad or not ref:
            ctx.violation('split-identity', None, fid, 'listing the features in %s attributes gives a different expansion than listing them in one (%s)' % (bad[0]['member'] if bad else '?', ' '.join(ms[0]['decl']['label'].split())),
                          key='C10/split-identity', construct='src/parser/attr.rs::parse_attrs / src/parser/feature.rs::FeatureParser::parse')
        else:
            ctx.ok('split-identity', n=len(ms) - 1)
    # ---- legal spellings of documented configurations (empty parameter lists, trailing commas, raw / escaped strings, parameter order,
    # many attributes): the same cases C13 keeps as twins are accept witnesses of this property
    from corpus import rejects as RJ
    sp = [c for c in RJ.c13_cases(tier) if c['class'].startswith('spelling/') or c['class'].endswith('/twin') or c['class'] == 'form/empty-list-twin']
    bst, br = runner.stage_batch('c10-spelling-' + tier, sp)
    runner.judge_batch(ctx, sp, br, PROP, lambda c: 'src/parser/feature.rs / src/parser/params.rs (attribute syntax)')
    ctx.programs |= {c['id'] for c in sp}
    if len(sp) < 40:
        ctx.error('only %d spelling witnesses' % len(sp))
    ctx.sample({'documented_catalogue': {k: {'modes': v['modes'], 'params': sorted(v['params'])} for k, v in list((doc or {}).items())[:6]}})
    ctx.sample({'witnessed_feature_mode_shape_cells': len(covers), 'instances': n})
    return runner.finish(PROP, tier, seed, 'other', ctx, t0,
                         explanation='Catalogue: %d documented features with %d mode values compared with the %d parsers (syn facts). Witnesses: %d derive instances (deriving only Clone + Copy) compiled, covering every documented (feature, mode, gapless/holes) cell as a single-feature instance, every pair of features, auto-steering sets, the mode matrix and parameter matrix; the same features split over 1/2/3/5 attributes expand to identical token streams. Generator rules (check() monotone, generate() local, resolve = enable; auto; enable) are what makes these witnesses representative of all subsets; they are checked on the syn facts of /repo/src. That each enabled item satisfies its own guarantee is C01-C09 over the same corpus.' % (
                             len(doc or {}), sum(len(v['modes']) for v in (doc or {}).values()), len(acc), n),
                         coverage_extra={'instances': n, 'cells': len(covers), 'cache_hit': [st.hit, gst.hit, est.hit], 'tree': st.tree},
                         nontrivial_rule='distinct (feature set, explicit modes, gapless/holes) configurations compiled',
                         assumptions=['rustc accept of a witness is the observation; the locality/monotonicity argument for "all subsets" is checked structurally, not proved'])
