"""C17 - expansion is deterministic (DESIGN.md 5).  Decided on the generator's own type-resolved MIR, for every
hash seed at once:
  order-taint rule : every iteration over a HashMap/HashSet in the crate is listed; its data may flow only through the
                     iterator protocol into (a) a Vec that is sorted - by a key that projects the map key - on every
                     path before the function returns it, or (b) diagnostics;
  source denylist  : no call into std::time / env / process / thread / fs / net, no direct RandomState, no pointer
                     exposing cast, anywhere in the crate.
Positive and negative fixtures (fixtures/c17_bad) are compiled and checked on every run."""
import json, os, shutil
from lib import runner, extract as X
from rules.ctx import Ctx
from rules.facts import Crate
from rules.mir import Body, show, callee_key

PROP = 'C17'
SITE_FLOOR = 0     # replacing the hash maps by ordered maps is a legitimate change; non-vacuity comes from the fixtures and BODY_FLOOR
BODY_FLOOR = 100
HASH_TYPES = ('std::collections::hash::map::HashMap', 'std::collections::hash::set::HashSet')
ITER_METHODS = {'iter', 'iter_mut', 'into_iter', 'keys', 'values', 'values_mut', 'into_keys', 'into_values', 'drain', 'retain', 'extract_if'}
PROPAGATE = {'core::iter::traits::collect::IntoIterator::into_iter', 'core::iter::traits::iterator::Iterator::next', 'core::iter::traits::iterator::Iterator::map',
             'core::iter::traits::iterator::Iterator::collect', 'core::iter::traits::iterator::Iterator::by_ref', 'core::iter::traits::iterator::Iterator::filter',
             'core::iter::traits::iterator::Iterator::cloned', 'core::iter::traits::iterator::Iterator::copied', 'core::ops::deref::Deref::deref', 'core::ops::deref::DerefMut::deref_mut',
             'core::clone::Clone::clone', 'core::ops::drop::Drop::drop', 'core::mem::drop'}
ORDER_FREE_HASH = {'new', 'with_capacity', 'with_hasher', 'with_capacity_and_hasher', 'default', 'insert', 'try_insert', 'get', 'get_mut', 'get_key_value', 'contains_key', 'contains',
                   'remove', 'remove_entry', 'take', 'replace', 'len', 'is_empty', 'entry', 'clear', 'reserve', 'try_reserve', 'shrink_to_fit', 'shrink_to', 'capacity', 'hasher',
                   'is_subset', 'is_superset', 'is_disjoint', 'get_or_insert_with', 'get_many_mut'}
ORDER_FREE_TRAITS = {'core::default::Default', 'core::clone::Clone', 'core::cmp::PartialEq', 'core::cmp::Eq', 'core::ops::index::Index', 'core::iter::traits::collect::Extend',
                     'core::iter::traits::collect::FromIterator', 'core::ops::drop::Drop', 'core::ops::deref::Deref', 'core::ops::deref::DerefMut', 'core::borrow::Borrow', 'core::convert::AsRef'}
ORDER_FREE = {'alloc::vec::Vec::is_empty', 'alloc::vec::Vec::len', 'slice::len', 'slice::is_empty'}
SORTS = {'slice::sort_by_key', 'slice::sort', 'slice::sort_unstable', 'slice::sort_unstable_by_key', 'slice::sort_by_cached_key', 'slice::sort_by', 'slice::sort_unstable_by'}
DENY_PREFIX = ('core::sync::atomic', 'std::sync::', 'core::cell::', 'std::thread', 'std::time', 'std::env', 'std::process', 'std::thread', 'std::fs', 'std::net', 'std::hash::random', 'std::collections::hash::map::RandomState',
               'std::io::stdio', 'std::os', 'std::sys::', 'core::fmt::Pointer', 'std::ptr', 'core::ptr::mut_ptr', 'core::ptr::const_ptr', 'std::collections::hash::map::DefaultHasher')

def subterm(t, x):
    if t == x:
        return True
    if isinstance(t, tuple):
        return any(subterm(y, x) for y in t if isinstance(y, tuple))
    return False

def is_hash_type(cr, t):
    t = cr.T(t)
    while t['k'] == 'ref':
        t = cr.T(t['to'])
    return t['k'] == 'adt' and t.get('path') in HASH_TYPES

def is_btree_type(cr, t):
    t = cr.T(t)
    while t['k'] == 'ref':
        t = cr.T(t['to'])
    return t['k'] == 'adt' and t.get('path') in ('alloc::collections::btree::map::BTreeMap', 'alloc::collections::btree::set::BTreeSet',
                                                 'std::collections::BTreeMap', 'std::collections::BTreeSet')

def sources(cr, body):
    out = []
    for blk, key, c, t in body.calls():
        if c is None:
            continue
        is_src = False
        if c.get('local'):
            continue          # a function of the generator that is handed a map: its own body is analysed
        if 'impl_self' in c and 'impl_trait' not in c and is_hash_type(cr, c['impl_self']):
            # inherent operations of the hash containers: everything that is not a point operation exposes the order
            # (iter, keys, values, drain, retain, difference, union, intersection, symmetric_difference, extract_if, ...)
            is_src = c['name'] not in ORDER_FREE_HASH
        elif c.get('args'):
            gen = c['args']
            if is_hash_type(cr, gen[0]):
                # a trait method with a hash container as Self
                tr = key.rsplit('::', 1)[0]
                is_src = tr not in ORDER_FREE_TRAITS
            elif any(is_hash_type(cr, a) for a in gen[1:]):
                # a hash container handed to a generic consumer: Vec::extend(set), Vec::from_iter(map), chain / zip with a set ...
                is_src = True
        if is_src:
            # `dest.extend(set)`: the data does not come back as the call's value, it lands in the receiver
            sink = c['name'] in ('extend', 'extend_one', 'extend_reserve', 'for_each', 'try_for_each') and not is_hash_type(cr, c['args'][0]) if c.get('args') else False
            out.append((blk, key, body.call_term(t, blk), sink))
    return out

def is_getter(cr, path):
    b = cr.bodies.get(path)
    if not b or 'mir' not in b:
        return False
    body = Body(cr, path, b['mir'])
    if body.loops() or body.calls():
        return False
    alts = body.ret_alternatives()
    if len(alts) != 1:
        return False
    t = alts[0][1]
    while t[0] in ('field', 'deref', 'ref'):
        t = t[1]
    return t == ('arg', 0)

def closure_body_ret(cr, clo):
    if clo[0] != 'agg' or not clo[1].startswith('closure|'):
        return None
    p = clo[1].split('|', 1)[1]
    b = cr.bodies.get(p)
    if not b:
        return None
    body = Body(cr, p, b['mir'])
    alts = body.ret_alternatives()
    return alts[0][1] if len(alts) == 1 and not body.loops() else None

def closure_side_effect(cr, clo):
    """a closure that is called once per element of a hash container, in hash order, must not leave a trace of that order:
    returns a description if its body writes through its environment or takes a mutable reborrow of captured state"""
    clo = peel(clo)
    if clo[0] != 'agg' or not str(clo[1]).startswith('closure|'):
        return None
    p = clo[1].split('|', 1)[1]
    b = cr.bodies.get(p)
    if not b or 'mir' not in b:
        return None
    body = Body(cr, p, b['mir'])
    # locals that hold (copies of) pointers into the closure's environment: _1 itself, `_k = copy/move (*_1).f..`, and copies of those
    env = {1}
    changed = True
    while changed:
        changed = False
        for blk in body.blocks:
            if blk['cleanup']:
                continue
            for st in blk['st']:
                if st['s'] != 'assign' or st['place']['pr']:
                    continue
                rv = st['rv']
                src = None
                if rv['r'] == 'use' and rv['op'].get('place'):
                    src = rv['op']['place']
                elif rv['r'] == 'ref':
                    src = rv['place']
                if src is not None and src['l'] in env and st['place']['l'] not in env:
                    env.add(st['place']['l']); changed = True
    for l, ws in body.writes_through.items():
        if l in env:
            return 'its closure %s writes to captured state (bb%d)' % (p.split('::', 1)[-1], ws[0][0])
    for bi, blk in enumerate(body.blocks):
        if blk['cleanup']:
            continue
        for st in blk['st']:
            if st['s'] == 'assign' and st['rv']['r'] == 'ref' and st['rv'].get('mut'):
                pl = st['rv']['place']
                if pl['l'] in env and pl['pr'] and pl['pr'][0]['p'] == 'deref' and (pl['l'] != 1 or len(pl['pr']) >= 2):
                    return 'its closure %s mutably reborrows captured state (bb%d)' % (p.split('::', 1)[-1], bi)
    return None

def peel(t):
    while t[0] in ('ref', 'deref', 'unsize'):
        t = t[1]
    return t

def key_projects_first(t):
    """closure return = first component of its (by-reference) parameter"""
    t = peel(t)
    return t[0] == 'field' and t[2] == 0 and peel(t[1]) == ('arg', 1)

def check_crate(cr, ctx, label):
    """returns number of iteration sites"""
    n_sites = 0
    # process-global mutable state: the expansion of a declaration must not depend on what was expanded before it
    for path, it in sorted(cr.items.items()):
        if it['kind'].startswith('Static'):
            if it.get('static_mut') or it.get('freeze') is False:
                ctx.violation('process-state', None, path, 'the generator keeps process-global mutable state: static %s: %s%s' % (path, it.get('ty_s'), ' (static mut)' if it.get('static_mut') else ' (interior mutability)'),
                              key='C17/process-state/%s/%s' % (label, path), construct=path)
            else:
                ctx.ok('process-state')
    for path, b in sorted(cr.bodies.items()):
        if 'mir' not in b or b['kind'] not in ('Fn', 'AssocFn', 'Closure'):
            continue
        body = Body(cr, path, b['mir'])
        fn = path
        # ---- denylist
        for blk, key, c, t in body.calls():
            if c is None:
                continue
            for cand in (c['path'], (c.get('resolved') or {}).get('path', '')):
                if cand.startswith(DENY_PREFIX):
                    ctx.violation('denylist', None, fn, '%s calls %s: a per-process source of nondeterminism' % (fn, cand), key='C17/denylist/%s/%s' % (label, fn), construct=fn)
                    break
            else:
                ctx.ok('denylist')
        for bi in body.reach:
            for st in body.blocks[bi]['st']:
                if st['s'] == 'assign' and st['rv']['r'] == 'cast' and 'Expose' in st['rv']['kind']:
                    ctx.violation('denylist', None, fn, '%s casts a pointer to an integer' % fn, key='C17/denylist-cast/%s/%s' % (label, fn), construct=fn)
        # ---- order taint
        for blk, key, T, sink in sources(cr, body):
            n_sites += 1
            where = '%s bb%d (%s)' % (fn, blk, key.split('::')[-1])
            def bad(what, kind='refuted'):
                ctx.violation('order-taint', None, fn, 'hash-map iteration at %s: %s' % (where, what), key='C17/order-taint/%s/%s' % (label, fn), construct=fn, kind=kind)
            if sink:
                bad('a hash container is consumed by %s, which stores its elements in hash order into the receiver; the rule set does not follow the order through it' % key, 'unrecognised'); continue
            # closures handed to the source call itself (retain, extract_if, ...) run once per element in hash order
            se = None
            if T[0] == 'call':
                for a in T[2]:
                    se = se or closure_side_effect(cr, a)
            if se:
                bad('%s: state written in hash order survives the call' % se); continue
            ok = True
            sorts = []
            for b2, k2, c2, t2 in body.calls():
                if b2 == blk:
                    continue
                args = [body.operand(a, (b2, 'T')) for a in t2['args']]
                if not any(subterm(a, T) for a in args):
                    continue
                if c2 and k2 in ('core::iter::traits::iterator::Iterator::collect', 'core::iter::traits::collect::FromIterator::from_iter', 'core::iter::traits::collect::Extend::extend') \
                        and any(is_btree_type(cr, a) for a in c2.get('args', [])):
                    sorts.append((b2, 'btree-collect', args)); continue      # an ordered container sorts by its (unique) key
                if k2 in PROPAGATE or k2 in ORDER_FREE:
                    se = None
                    for a in args:
                        se = se or closure_side_effect(cr, a)
                    if se:
                        bad('%s while it is applied to the elements in hash order' % se); ok = False; break
                    continue
                if k2 in SORTS:
                    sorts.append((b2, k2, args)); continue
                p2 = c2['path'] if c2 else ''
                if p2.startswith('proc_macro_error::') or k2 == 'alloc::string::ToString::to_string':
                    continue
                if c2 and c2['local'] and is_getter(cr, c2['path']):
                    continue
                bad('its data flows into %s, which is neither the iterator protocol, a sort, nor a diagnostic' % (k2 or p2)); ok = False; break
            if not ok:
                continue
            if body.writes_through:
                tainted_w = []
                for l, ws in body.writes_through.items():
                    for (wb, wi) in ws:
                        if subterm(body.rvalue(body.blocks[wb]['st'][wi]['rv'], (wb, wi)), T):
                            tainted_w.append(wb)
                if tainted_w:
                    bad('its data is stored through a reference (bb%d)' % tainted_w[0]); continue
            rets = [(s, t) for s, t in body.ret_alternatives() if subterm(t, T)]
            if not rets:
                ctx.ok('order-taint'); continue       # (b) diagnostics only
            # (a) returned: must be sorted on every path
            if not sorts:
                bad('the collected data is returned in hash order: no sort'); continue
            sb, sk, sargs = sorts[0]
            if not all(body.dominates(sb, rb) for rb in body.returns()):
                bad('the sort at bb%d does not dominate every return: on some path the data is returned in hash order' % sb); continue
            if sk in ('slice::sort_by', 'slice::sort_unstable_by'):
                # comparator must be  |a, b| a.0.cmp(&b.0)  (first components = the unique map keys)
                kr = closure_body_ret(cr, peel(sargs[1]))
                okc = False
                if kr and kr[0] == 'call' and kr[1] in ('core::cmp::Ord::cmp', 'core::cmp::PartialOrd::partial_cmp') and len(kr[2]) == 2:
                    x, y = peel(kr[2][0]), peel(kr[2][1])
                    okc = x[0] == 'field' and x[2] == 0 and y[0] == 'field' and y[2] == 0 and {peel(x[1]), peel(y[1])} == {('arg', 1), ('arg', 2)}
                if not okc:
                    bad('the comparator %s of %s is not a comparison of the first tuple components (the unique map keys)' % (show(kr) if kr else '?', sk), 'unrecognised'); continue
            if sk.endswith('_by_key') or sk.endswith('by_cached_key'):
                kr = closure_body_ret(cr, peel(sargs[1]))
                if kr is None or not key_projects_first(kr):
                    bad('the sort key %s is not the first tuple component (the unique map key), so ties keep hash order' % (show(kr) if kr else '?')); continue
            # the element's first component must be the map key
            def find_map(t):
                if isinstance(t, tuple):
                    if t and t[0] == 'call' and t[1] == 'core::iter::traits::iterator::Iterator::map' and subterm(t, T):
                        return t
                    for y in t:
                        r = find_map(y) if isinstance(y, tuple) else None
                        if r:
                            return r
                return None
            mp = find_map(rets[0][1])
            if mp is not None:
                mr = closure_body_ret(cr, peel(mp[2][1]))
                first = mr[2][0] if mr and mr[0] == 'agg' and mr[1] == 'tuple' and mr[2] else None
                fk = peel(first) if first else None
                if not (fk and fk[0] == 'field' and fk[2] == 0 and peel(fk[1]) == ('arg', 1)):
                    bad('the collected element %s does not start with the map key' % (show(mr) if mr else '?'), 'unrecognised'); continue
            ctx.ok('order-taint')
    return n_sites

def fixture_stage():
    st = X.Stage('fixture-c17-v5')
    def build(out):
        ws = X.scratch_dir('fx17')
        try:
            shutil.copytree(os.path.join(X.VERIF, 'fixtures', 'c17_bad'), os.path.join(ws, 'c'))
            rc, err, diags = X.run_driver(os.path.join(ws, 'c'), os.path.join(out, 'facts'))
            if rc != 0:
                with open(os.path.join(out, 'error.txt'), 'w') as f:
                    f.write(err[-3000:])
        finally:
            shutil.rmtree(ws, ignore_errors=True)
    return st, st.ensure(build)

def main(tier, seed, t0):
    ctx = Ctx(PROP)
    st, d = runner.stage_gmir()
    fp = os.path.join(d, 'facts', 'enum_tools.json')
    if not os.path.exists(fp):
        ctx.error('generator facts missing: %s' % open(os.path.join(d, 'error.txt')).read()[-600:] if os.path.exists(os.path.join(d, 'error.txt')) else 'generator facts missing')
        return runner.finish(PROP, tier, seed, 'other', ctx, t0, explanation='generator did not compile')
    cr = Crate(fp)
    n_sites = check_crate(cr, ctx, 'enum_tools')
    n_bodies = len([1 for b in cr.bodies.values() if 'mir' in b])
    if n_sites < SITE_FLOOR or n_bodies < BODY_FLOOR:
        ctx.error('only %d hash-map iteration sites / %d bodies found in the generator (floors %d / %d)' % (n_sites, n_bodies, SITE_FLOOR, BODY_FLOOR))
    # fixtures
    fst, fd = fixture_stage()
    ffp = os.path.join(fd, 'facts', 'c17_bad.json')
    if not os.path.exists(ffp):
        ctx.error('fixture crate did not compile')
    else:
        fctx = Ctx(PROP)
        check_crate(Crate(ffp), fctx, 'fixture')
        flagged = {v['item'].split('::')[-1]: v['rule'] for v in fctx.violations}
        want = {'bad_unsorted': 'order-taint', 'bad_conditional_sort': 'order-taint', 'bad_random_state': 'denylist', 'bad_time': 'denylist', 'bad_process_state': 'denylist', 'FIRST': 'process-state',
                'bad_set_difference': 'order-taint', 'bad_extend_from_set': 'order-taint', 'bad_debug_format': 'order-taint', 'bad_retain_last_visited': 'order-taint', 'bad_map_counter': 'order-taint'}
        for k, r in want.items():
            if flagged.get(k) != r:
                ctx.error('positive fixture %s not flagged by %s (got %s): the rule is broken' % (k, r, flagged.get(k)))
        if any(g in flagged for g in ('good_sorted', 'GOOD_TABLE', 'good_point_ops', 'good_btree_collect', 'good_retain_pure')):
            ctx.error('a negative fixture was flagged: %s' % flagged)
        ctx.sample({'fixtures_flagged': flagged})
    ctx.programs = {'enum_tools'}
    ctx.nontrivial = set('site%d' % i for i in range(n_sites)) | {'denylist'}
    ctx.sample({'generator_bodies_analysed': n_bodies, 'hash_iteration_sites': n_sites})
    return runner.finish(PROP, tier, seed, 'other', ctx, t0,
                         explanation='Type-resolved MIR of all %d bodies of the generator crate (extracted from /repo\'s working tree) was analysed: %d HashMap/HashSet iteration sites found; each must flow, through the iterator protocol only, into a Vec sorted by the map key on every path to the return, or into proc_macro_error diagnostics; no call into time/env/process/thread/fs/net/RandomState and no pointer-exposing cast anywhere. This covers all hash seeds, which no number of runs can. Positive and negative fixtures are recompiled and must be flagged / pass on every run.' % (n_bodies, n_sites),
                         coverage_extra={'bodies': n_bodies, 'iteration_sites': n_sites, 'cache_hit': [st.hit, fst.hit], 'tree': st.tree},
                         nontrivial_rule='hash-map iteration sites + the denylist scan',
                         assumptions=['syn, quote, proc-macro2 and proc-macro-error are deterministic given deterministic input (their code is not analysed)',
                                      'error *order* for several simultaneous diagnostics may depend on hash order; the property is about the expansion of supported declarations'])
