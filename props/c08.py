"""C08 - names() yields the names in discriminant order, aligned with iter() and as_str (DESIGN.md 5)."""
from lib import runner
from rules import tables
from rules.items import Items, GEN_FILE
from rules.shapes import View
from rules.mir import show
from rules import r_iter as R
from props.c06 import struct_name

PROP = 'C08'

def check_instance(inst, F, ctx, extra):
    if 'names' not in inst.feats:
        return
    I = Items(inst)
    V = View(inst, I, F)
    spath = inst.mod + '::' + struct_name(inst, 'names')
    con = GEN_FILE['names']
    kind, adt = R.struct_kind(inst, spath)
    it = I.assoc_fn('names')
    if kind is None or it is None:
        ctx.violation('exists', inst, 'names', 'names struct or function not found', construct=con); return
    ctx.nontrivial.add(tuple(inst.rec['classes'][:5]))
    b = I.body(it['path'])
    alts = b.ret_alternatives()
    t = V.strip(alts[0][1]) if len(alts) == 1 and not b.loops() else None
    if t is None or t[0] != 'agg' or not t[1].startswith('adt|' + spath + '|') or kind != 'forward':
        ctx.violation('constructor', inst, 'names', 'names() returns %s' % (show(t) if t else 'several values'), kind='unrecognised', construct=con); return
    ok = R.check_forwarding(inst, V, ctx, spath, 'names')
    ok &= R.check_inner_ctor(inst, V, ctx, t[2][0], 'names', 'names')
    # Item type
    for im in inst.impls:
        if im.get('trait') == R.T_ITER and inst.crate.T(im['self_ty']).get('path') == spath:
            for x in im['items']:
                if x['name'] == 'Item':
                    ty = inst.crate.T(x['ty'])
                    if not ty['s'].startswith("&'static str"):
                        ctx.violation('item-type', inst, 'names', 'Item = %s' % ty['s'], construct=con)
    tables.check_tables(inst, F, ctx, {'T2'} if 'T2' in V.used else set())
    if ok and len(ctx.samples) < 4 and inst.decl['naming'] != 'default':
        ctx.sample({'instance': inst.describe()[:300], 'name_table': inst.names[:8], 'decided': 'names() == name table front to back under every sequence of iterator operations (forwarding to Copied<slice::Iter>)'})

def main(tier, seed, t0):
    st, d = runner.stage_inst(tier, seed)
    ctx, n = runner.run_instances('props.c08', d)
    return runner.finish(PROP, tier, seed, 'translation_validation', ctx, t0,
                         coverage_extra={'instances_in_corpus': n, 'cache_hit': st.hit, 'tree': st.tree},
                         assumptions=['core iterator algebra is trusted (Copied<slice::Iter> is double-ended, exact-size, fused)'])
