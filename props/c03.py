"""C03 - as_str, Display, Debug and IntoStr return exactly the variant's name (DESIGN.md 5)."""
from lib import runner
from rules import tables
from rules.items import Items, GEN_FILE
from rules.shapes import View
from rules.r_asstr import check_as_str, check_delegation

PROP = 'C03'

def check_instance(inst, F, ctx, extra):
    I = Items(inst)
    V = View(inst, I, F)
    checked = {}
    did = False
    it = I.require_fn(ctx, 'as_str')
    if it is not None:
        did = True
        checked[it['path']] = check_as_str(inst, V, ctx, I.body(it['path']), 'as_str')
    for f, tr in (('Debug', 'core::fmt::Debug'), ('Display', 'core::fmt::Display')):
        if f in inst.feats:
            fs = I.trait_fn(tr, 'fmt')
            if not fs:
                ctx.violation('exists', inst, f, '%s impl not found' % f, construct=GEN_FILE[f])
            for im, p in fs:
                did = True
                check_delegation(inst, V, ctx, p, f, checked)
    if 'IntoStr' in inst.feats:
        fs = I.trait_fn('core::convert::From', 'from', lambda t, im: t['k'] == 'ref')
        if not fs:
            ctx.violation('exists', inst, 'IntoStr', 'From<E> for &str impl not found', construct=GEN_FILE['IntoStr'])
        for im, p in fs:
            did = True
            check_delegation(inst, V, ctx, p, 'IntoStr', checked)
    if did:
        ctx.nontrivial.add(tuple(inst.rec['classes'][:5]) + (inst.feats.get('as_str', {}).get('mode', 'auto' if 'as_str' in inst.feats else 'helper'),))
        tables.check_tables(inst, F, ctx, ({'T2'} if 'T2' in V.used else set()) | ({'T4', 'T4-offset'} if 'T4' in V.used else set()))
        if len(ctx.samples) < 4 and inst.decl['naming'] == 'hostile':
            ctx.sample({'instance': inst.describe()[:300], 'names_in_discriminant_order': inst.names[:8], 'decided': 'as_str(v) == name(v) for all %d variants' % len(inst.S)})

def main(tier, seed, t0):
    st, d = runner.stage_inst(tier, seed)
    ctx, n = runner.run_instances('props.c03', d)
    return runner.finish(PROP, tier, seed, 'translation_validation', ctx, t0,
                         coverage_extra={'instances_in_corpus': n, 'cache_hit': st.hit, 'tree': st.tree},
                         assumptions=['index expressions are evaluated as piecewise-affine functions of the discriminant and compared with the position function on the whole declared set (rules/r_asstr.py)'])
