"""C14 - sorted(name) / sorted(value) compile iff the declaration is strictly sorted (DESIGN.md 5).
Exhaustive permutation witnesses for n <= 4 (explicit, renamed with inverted name order, negative / minimum first
values, equal and prefix names, byte-wise case order, implicit discriminants) under every sorted configuration;
oracle: sortedness computed by the corpus generator; verdict: rustc accept / reject."""
from lib import runner
from rules.ctx import Ctx
from corpus import rejects as RJ

PROP = 'C14'
FLOOR = 500

def construct(c):
    return 'src/parser/values.rs::parse_values (sorted checks: last_name >= name; i < last) + src/feature/sorted.rs::parse'

def main(tier, seed, t0):
    cases = RJ.c14_cases(tier)
    cases += RJ.mixed_c14(150 if tier == 'quick' else 1500, seed)
    st, r = runner.stage_batch('c14-' + tier, cases)
    ctx = Ctx(PROP)
    ctx.programs = set(c['id'] for c in cases)
    n = runner.judge_batch(ctx, cases, r, PROP, construct)
    if len(cases) < FLOOR:
        ctx.error('witness count %d below floor %d' % (len(cases), FLOOR))
    for c in cases[:3] + [c for c in cases if c['class'].startswith('renamed3/sorted(name)')][:2]:
        ctx.sample({'case': c['id'], 'class': c['class'], 'source': ' '.join(c['body'])[:300], 'expect': c['expect'], 'note': c['note']})
    return runner.finish(PROP, tier, seed, 'other', ctx, t0,
                         explanation='All %d declaration orders x sorted configurations (exhaustive over permutations of 2-, 3- and 4-variant families) were compiled in two rustc runs (accept batch must compile cleanly; every reject case must get a derive-raised error located in its module). The sortedness oracle is computed by the witness generator. Acceptance is a conjunction over adjacent pairs (the parser compares only with the previous variant), so n <= 4 covers every adjacent-pair behaviour.' % len(cases),
                         coverage_extra={'witnesses': len(cases), 'exhaustive': True, 'cache_hit': st.hit, 'tree': st.tree},
                         nontrivial_rule='distinct (family, sorted configuration) classes',
                         assumptions=['rustc accept/reject of a witness is the observation; locality of the sorted checks (comparison with the previous variant only) is read from src/parser/values.rs'])
