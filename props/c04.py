"""C04 - from_str / FromStr accept exactly the variant names and invert as_str (DESIGN.md 5)."""
from lib import runner
from rules import tables
from rules.items import Items, GEN_FILE
from rules.shapes import View
from rules.r_fromstr import check_from_str

PROP = 'C04'

def check_instance(inst, F, ctx, extra):
    I = Items(inst)
    V = View(inst, I, F)
    did = False
    it = I.require_fn(ctx, 'from_str')
    if it is not None:
        did = True
        check_from_str(inst, V, ctx, I.body(it['path']), 'from_str', 'Some')
    if 'FromStr' in inst.feats:
        fs = I.trait_fn('core::str::traits::FromStr', 'from_str')
        if not fs:
            ctx.violation('exists', inst, 'FromStr', 'FromStr impl not found', construct=GEN_FILE['FromStr'])
        for im, p in fs:
            did = True
            check_from_str(inst, V, ctx, I.body(p), 'FromStr', 'Ok')
    if did:
        ctx.nontrivial.add(tuple(inst.rec['classes'][:5]) + (inst.feats.get('from_str', {}).get('mode'), inst.feats.get('FromStr', {}).get('mode')))
        tables.check_tables(inst, F, ctx, ({'T2'} if 'T2' in V.used else set()) | ({'T3'} if 'T3' in V.used else set()))
        if len(ctx.samples) < 4 and inst.decl['naming'] in ('dup', 'swap'):
            ctx.sample({'instance': inst.describe()[:300], 'accepted_strings': [n for n in dict.fromkeys(inst.names)][:8], 'decided': 'for all strings: only equality with these constants is ever tested'})

def main(tier, seed, t0):
    st, d = runner.stage_inst(tier, seed)
    ctx, n = runner.run_instances('props.c04', d)
    return runner.finish(PROP, tier, seed, 'translation_validation', ctx, t0,
                         coverage_extra={'instances_in_corpus': n, 'cache_hit': st.hit, 'tree': st.tree},
                         assumptions=['the argument string is touched only through <str as PartialEq>::eq with constants (checked); the ordered list of (constant, result) pairs read off the CFG determines the function on all strings'])
