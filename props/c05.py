"""C05 - MIN, MAX, next and next_back follow discriminant order (DESIGN.md 5)."""
from lib import runner
from rules import tables
from rules.items import Items
from rules.shapes import View
from rules.r_next import check_step

PROP = 'C05'

def check_instance(inst, F, ctx, extra):
    I = Items(inst)
    V = View(inst, I, F)
    did = False
    if 'MIN' in inst.feats or 'MAX' in inst.feats:
        did = True
        tables.check_tables(inst, F, ctx, {'T1'})
    for feature, direction in (('next', 'fwd'), ('next_back', 'bwd')):
        it = I.require_fn(ctx, feature)
        if it is None:
            continue
        did = True
        check_step(inst, V, ctx, I.body(it['path']), direction, feature, feature)
    if did:
        ctx.nontrivial.add(tuple(inst.rec['classes'][:5]))
        if 'T4' in V.used:
            tables.check_tables(inst, F, ctx, {'T4'})
        if len(ctx.samples) < 4 and not inst.gapless and 'next' in inst.feats:
            ctx.sample({'instance': inst.describe()[:300], 'successor_function_decided_on': 'all %d variants' % len(inst.S), 'runs': inst.runs[:6]})

def main(tier, seed, t0):
    st, d = runner.stage_inst(tier, seed)
    ctx, n = runner.run_instances('props.c05', d)
    return runner.finish(PROP, tier, seed, 'translation_validation', ctx, t0,
                         coverage_extra={'instances_in_corpus': n, 'cache_hit': st.hit, 'tree': st.tree},
                         assumptions=['the successor computed by each CFG path is a piecewise-affine function of the discriminant, compared with the specification successor on the whole declared set (rules/r_next.py, rules/scan.py)'])
