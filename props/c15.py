"""C15 - name, vis and struct_name parameters are honoured; helper items stay private (DESIGN.md 5).
Decided from tcx facts (resolved visibility, def paths, resolved callees), for every instance."""
from lib import runner
from rules.items import Items, GEN_FILE
from rules.mir import callee_key
from corpus import decls as D

PROP = 'C15'

DERIVE_TRAITS = {
    'Debug': 'core::fmt::Debug', 'Display': 'core::fmt::Display', 'FromStr': 'core::str::traits::FromStr',
    'TryFrom': 'core::convert::TryFrom',
}
ITER_TRAITS = ['core::iter::traits::iterator::Iterator', 'core::iter::traits::double_ended::DoubleEndedIterator',
               'core::iter::traits::exact_size::ExactSizeIterator', 'core::iter::traits::marker::FusedIterator']
BUILTIN_DERIVES = {'core::clone::Clone', 'core::marker::Copy', 'core::clone::TrivialClone'}
# traits the witness itself derives next to EnumTools (decl['derives']): their impls are not the derive's
STD_DERIVE_TRAITS = {'PartialEq': ['core::cmp::PartialEq', 'core::marker::StructuralPartialEq'], 'Eq': ['core::cmp::Eq'], 'PartialOrd': ['core::cmp::PartialOrd'], 'Ord': ['core::cmp::Ord'],
                     'Hash': ['core::hash::Hash'], 'Debug': ['core::fmt::Debug'], 'Default': ['core::default::Default']}

def want_vis(inst, param_vis):
    """resolved visibility the documentation promises for a `vis` parameter value"""
    enum_vis = inst.adt['vis']
    if param_vis is None:
        return enum_vis
    if param_vis == '':
        return 'in:' + inst.priv_mod
    if param_vis == 'pub(crate)':
        return 'crate'
    if param_vis == 'pub':
        return 'pub'
    return '?'

def struct_name(inst, f):
    p = inst.feats.get(f, {})
    return p.get('struct_name') or (inst.enum_name + ('Iter' if f == 'iter' else 'Names'))

def check_instance(inst, F, ctx, extra):
    cr = inst.crate
    private = 'in:' + inst.priv_mod
    if inst.mod.count('::') == 1 and False:
        pass
    requested = {}     # item name -> feature
    def bad(rule, item, what):
        ctx.violation(rule, inst, item, what, key='C15/%s/%s' % (rule, item), construct=GEN_FILE.get(item))
    ctx.nontrivial.add((inst.decl['vis'], tuple(sorted((f, p.get('vis'), 'name' in p, 'struct_name' in p) for f, p in inst.feats.items() if f in D.HAS_NAME_VIS))))
    for f in D.HAS_NAME_VIS:
        if f not in inst.feats:
            continue
        p = inst.feats[f]
        nm = p.get('name', f)
        requested[nm] = f
        it = inst.assoc.get(nm)
        if it is None:
            bad('name', f, 'requested item `%s` does not exist (items of the derive impl: %s)' % (nm, sorted(inst.assoc)[:20])); continue
        wv = want_vis(inst, p.get('vis'))
        if it['vis'] != wv:
            bad('vis', f, '`%s` has resolved visibility %s, requested %s (vis parameter %r, enum visibility %s)' % (nm, it['vis'], wv, p.get('vis'), inst.adt['vis']))
        else:
            ctx.ok('vis', inst)
        ctx.ok('name', inst)
    # iterator structs: name + visibility, private fields
    structs = {}
    for f in D.HAS_STRUCT_NAME:
        if f not in inst.feats:
            continue
        sn = struct_name(inst, f)
        sp = inst.mod + '::' + sn
        structs[sp] = f
        a = cr.adts.get(sp)
        if a is None:
            bad('struct-name', f, 'struct `%s` does not exist (structs in the module: %s)' % (sn, sorted(x['path'].split('::')[-1] for x in inst.adts if x['kind'] == 'Struct'))); continue
        wv = want_vis(inst, inst.feats[f].get('vis'))
        if a['vis'] != wv:
            bad('vis', f, 'struct `%s` has resolved visibility %s, requested %s' % (sn, a['vis'], wv))
        else:
            ctx.ok('vis', inst)
        for fl in a.get('fields', []):
            if fl['vis'] != private:
                bad('helper-private', f, 'field `%s` of struct `%s` is visible as %s' % (fl['name'], sn, fl['vis']))
            else:
                ctx.ok('helper-private', inst)
        # the struct under the requested name is the one the feature's function returns
        fn_it = inst.assoc.get(inst.feats[f].get('name', f))
        if fn_it is not None and fn_it['kind'] == 'AssocFn':
            out = cr.T(fn_it['output'])
            if out.get('path') != sp:
                bad('struct-name', f, '`%s()` returns %s, but the struct requested for %s is `%s`' % (fn_it['name'], out['s'], f, sn)); continue
        ctx.ok('struct-name', inst)
    # every other item of the derive impl is a helper and must be private to the enum's module
    for nm, it in inst.assoc.items():
        if nm in requested or it is None:
            continue
        if it['vis'] != private:
            ctx.violation('helper-private', inst, nm, 'helper item `%s` (not requested by the user) has resolved visibility %s; required: private to %s' % (nm, it['vis'], inst.priv_mod),
                          key='C15/helper-private/assoc', construct='the disabled default of the feature that owns `%s` (src/feature/*.rs::parse, else branch)' % nm)
        else:
            ctx.ok('helper-private', inst)
    # no other struct / adt added
    for a in inst.adts:
        if a['path'] == inst.enum_path or not a['from_expansion']:
            continue
        if a['path'] not in structs:
            ctx.violation('surface', inst, a['path'].split('::')[-1], 'the derive added a type that no requested feature documents: %s (visibility %s)' % (a['path'], a['vis']), key='C15/surface/adt')
        else:
            ctx.ok('surface', inst)
    # trait impls: exactly the requested ones
    want_impls = set()
    for f, tr in DERIVE_TRAITS.items():
        if f in inst.feats:
            want_impls.add((tr, 'E'))
    if 'Into' in inst.feats:
        want_impls.add(('core::convert::From', 'R'))
    if 'IntoStr' in inst.feats:
        want_impls.add(('core::convert::From', 'str'))
    for sp, f in structs.items():
        for tr in ITER_TRAITS:
            want_impls.add((tr, sp))
    got = set()
    own = set(BUILTIN_DERIVES)
    for dname in (inst.decl.get('derives') or '').replace(' ', '').split(','):
        own |= set(STD_DERIVE_TRAITS.get(dname, []))
    for im in inst.impls:
        if 'trait' not in im or not im['from_expansion'] or im['trait'] in own:
            continue
        st = cr.T(im['self_ty'])
        if st.get('path') == inst.enum_path:
            who = 'E'
        elif st['k'] == 'int':
            who = 'R'
        elif st['k'] == 'ref':
            who = 'str'
        else:
            who = st.get('path', st['s'])
        got.add((im['trait'], who))
    if got != want_impls:
        ctx.violation('surface', inst, 'trait impls', 'trait impls added by the derive differ from the requested ones: unexpected %s, missing %s' % (sorted(got - want_impls), sorted(want_impls - got)), key='C15/surface/trait-impls')
    else:
        ctx.ok('surface', inst)
    # cross references go to the item under its requested name
    I = Items(inst)
    def local_callees(path):
        b = I.body(path)
        out = []
        if b is None:
            return out
        for blk, key, c, t in b.calls():
            if c and c['local']:
                out.append(c['path'])
        return out
    def expect_ref(user_item, feature_called, callers):
        nm = inst.feature_name(feature_called)
        if nm is None:
            return      # helper: any private item will do (checked above)
        target = inst.assoc.get(nm)
        if target is None:
            return
        for caller in callers:
            cs = [c for c in local_callees(caller) if not c.startswith(caller)]
            if target['path'] not in cs:
                bad('cross-ref', user_item, '%s calls %s instead of the user-named `%s`' % (caller.split('::', 2)[-1], [c.split('::')[-1] for c in cs], nm))
            else:
                ctx.ok('cross-ref', inst)
    for f, tr in (('Debug', 'core::fmt::Debug'), ('Display', 'core::fmt::Display')):
        if f in inst.feats:
            expect_ref(f, 'as_str', [p for im, p in I.trait_fn(tr, 'fmt')])
    if 'IntoStr' in inst.feats:
        expect_ref('IntoStr', 'as_str', [p for im, p in I.trait_fn('core::convert::From', 'from', lambda t, im: t['k'] == 'ref')])
    if 'iter' in inst.feats and inst.feats['iter'].get('mode') == 'next_and_back':
        sp = inst.mod + '::' + struct_name(inst, 'iter')
        for meth, feat in (('next', 'next'), ('next_back', 'next_back')):
            tr = 'core::iter::traits::iterator::Iterator' if meth == 'next' else 'core::iter::traits::double_ended::DoubleEndedIterator'
            callers = []
            for im, p in I.trait_fn(tr, meth, lambda t, im: t.get('path') == sp):
                callers += [k for k in inst.bodies if k.startswith(p + '::{closure')]
            expect_ref('iter', feat, callers)
    if len(ctx.samples) < 4 and inst.rec['kind'] == 'params':
        ctx.sample({'instance': inst.describe()[:400], 'resolved': {nm: it['vis'] for nm, it in list(inst.assoc.items())[:24] if it}})

def main(tier, seed, t0):
    st, d = runner.stage_inst(tier, seed)
    ctx, n = runner.run_instances('props.c15', d)
    # privacy witnesses seen from a sibling module (rustc's own privacy errors), with compiling twins
    from corpus import rejects as RJ
    cases = RJ.c15_cases(tier)
    bst, br = runner.stage_batch('c15-' + tier, cases)
    runner.judge_batch(ctx, cases, br, PROP, lambda c: 'visibility / name of the item named in the witness (src/parser/params.rs::get_vis_name, src/generator/names.rs, disabled defaults in src/feature/*.rs::parse)')
    ctx.programs |= {c['id'] for c in cases}
    if len(cases) < 34:
        ctx.error('privacy witness count %d below floor 34' % len(cases))
    return runner.finish(PROP, tier, seed, 'translation_validation', ctx, t0,
                         coverage_extra={'instances_in_corpus': n, 'cache_hit': st.hit, 'tree': st.tree},
                         nontrivial_rule='distinct (enum visibility, per-feature (vis parameter, name given, struct_name given)) vectors',
                         assumptions=['visibility is rustc\'s resolved tcx.visibility of each item; reachability from outside the module follows from it'])
