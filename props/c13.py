"""C13 - invalid or contradictory configuration is rejected, never silently ignored (DESIGN.md 5).
Reject witnesses for each of the 18 feature parsers x malformation kind, feature repetition in one and across
attributes, mode/visibility whitelists, range/iter compatibility (incl. wide i64/i128 gaps), non-list forms and
variant-level attributes; each family has compiling twins; gapless and with-holes enums."""
from lib import runner
from rules.ctx import Ctx
from corpus import rejects as RJ
from rules import gtypestate
from rules.facts import Crate
import os

PROP = 'C13'
FLOOR = 500
PARSER_FLOOR = 18

def construct(c):
    k = c['class'].split('/')[0]
    return {'param': 'src/parser/params.rs (get_*/finish) + the feature\'s parse()', 'feature': 'src/parser/feature.rs::FeatureParser::{parse,insert,finish}',
            'mode': 'the feature\'s parse(): mode whitelist', 'sorted': 'src/feature/sorted.rs::parse', 'range': 'src/feature/range_fn.rs::check',
            'iter-range-on-holes': 'src/feature/iter/range.rs::check_range', 'iter-range-on-holes+range': 'src/feature/iter/range.rs::check_range',
            'form': 'src/parser/feature.rs::FeatureParser::parse', 'variant': 'src/parser/values.rs::parse_values (variant attributes)'}.get(k)

def main(tier, seed, t0):
    cases = RJ.c13_cases(tier)
    cases += RJ.mixed_c13(150 if tier == 'quick' else 1500, seed)
    st, r = runner.stage_batch('c13-' + tier, cases)
    ctx = Ctx(PROP)
    ctx.programs = set(c['id'] for c in cases)
    runner.judge_batch(ctx, cases, r, PROP, construct)
    if len(cases) < FLOOR:
        ctx.error('witness count %d below floor %d' % (len(cases), FLOOR))
    # generator typestate on the resolved MIR of /repo itself
    gst, gd = runner.stage_gmir()
    fp = os.path.join(gd, 'facts', 'enum_tools.json')
    n_parsers = 0
    if os.path.exists(fp):
        n_parsers = gtypestate.check(Crate(fp), ctx)
        if n_parsers < PARSER_FLOOR:
            ctx.error('only %d functions call FeatureParser::get, floor is %d' % (n_parsers, PARSER_FLOOR))
    else:
        ctx.error('generator facts missing')
    for c in [c for c in cases if c['expect'] == 'reject'][::97][:6]:
        ctx.sample({'case': c['id'], 'class': c['class'], 'source': ' '.join(c['body'])[:300], 'errors': [e['message'] for e in r['results'][c['id']]['errors']][:3]})
    return runner.finish(PROP, tier, seed, 'other', ctx, t0,
                         explanation='%d witnesses (%d reject, %d compiling twins) compiled in two rustc runs. Families: unknown / duplicated / wrong-kind parameter for each of the 18 parsers, vis and mode outside the documented lists, feature repeated in one attribute and across attributes, unknown features, range without iter / with table_inline, iter(mode="range") on enums with holes including i64/i128 gaps of 2^63 and more, non-list attribute forms, every variant-level form other than rename = "literal". A reject case passes only if the derive raises an error located in its module. In addition the generator\'s own MIR is checked for the linear typestate: in each of the %d parsers the Params from FeatureParser::get is moved into Params::finish on every normal path, Derive::parse calls FeatureParser::finish after the last parser on every path, and every iteration of the leftover loops in both finish functions reaches Diagnostic::emit - which closes the quantifier over unknown parameter and feature names.' % (
                             len(cases), len([c for c in cases if c['expect'] == 'reject']), len([c for c in cases if c['expect'] == 'accept']), n_parsers),
                         coverage_extra={'witnesses': len(cases), 'parsers_with_typestate': n_parsers, 'cache_hit': st.hit, 'tree': st.tree},
                         nontrivial_rule='distinct (malformation kind, feature) classes',
                         assumptions=['rustc accept/reject of a witness is the observation'])
