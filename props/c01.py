"""C01 - try_from / TryFrom is the exact partial inverse of into / Into (DESIGN.md 5)."""
from lib import runner
from rules import tables, ivl, shapes as S
from rules.items import Items, GEN_FILE, shape
from rules.scan import Scanner, Unrecognised
from rules.shapes import View
from rules.mir import show
from rules.fold import ty_range
from props.c11 import check_into

PROP = 'C01'

def check_try_from(inst, V, ctx, body, feature, okv):
    """okv: 'Some' (fn) or 'Ok' (trait)"""
    lo, hi = ty_range(inst.repr, inst.crate.pointer_bits)
    dom = [(lo, hi)]
    var = ('arg', 0)
    item = feature
    con = '%s [%s]' % (GEN_FILE[feature], shape(inst))
    try:
        sc = Scanner(V, body, var, dom)
        res = sc.run()
    except Unrecognised as e:
        ctx.violation('shape', inst, item, 'the body is not a bound test / run-table scan the rule set understands: %s' % e, kind='unrecognised', key='%s/shape/%s' % (ctx.prop, item), construct=con)
        return None
    for region, what in sc.panics + sc.ub:
        ctx.violation('panic-edge', inst, item, 'for n in %s: %s' % (ivl.show(region), what), key='%s/panic-edge/%s' % (ctx.prop, item), construct=con, kind='undischarged')
        return None
    accept, reject = [], []
    for region, kind, val, st_, path in res:
        if not region:
            continue
        if kind == 'return':
            if S.is_some(val, okv):
                p = S.payload(val)
                want = ('transmute', inst.enum_path, var)
                # accepted equivalent: a constant variant on the single input that is its discriminant (a safe `match` form)
                if p[0] == 'agg' and p[1].startswith('adt|' + inst.enum_path + '|') and not p[2]:
                    dv = inst.by_ident.get(p[1].split('|')[-1], {}).get('value')
                    if region == [(dv, dv)]:
                        accept = ivl.union(accept, region)
                        continue
                if p != want:
                    ctx.violation('payload', inst, item, 'for n in %s the function returns %s, required %s(transmute(n)): the variant whose discriminant is n' % (ivl.show(region), show(val), okv),
                                  key='%s/payload/%s' % (ctx.prop, item), construct=con)
                    return None
                accept = ivl.union(accept, region)
            elif S.is_none(val) or S.is_err_unit(val):
                reject = ivl.union(reject, region)
            else:
                ctx.violation('payload', inst, item, 'for n in %s the function returns %s' % (ivl.show(region), show(val)), kind='unrecognised', key='%s/payload/%s' % (ctx.prop, item), construct=con)
                return None
        else:
            ctx.violation('panic-edge', inst, item, 'for n in %s control reaches a %s' % (ivl.show(region), 'panic' if kind == 'diverge' else 'block marked unreachable'),
                          key='%s/panic-edge/%s' % (ctx.prop, item), construct=con, kind='undischarged')
            return None
    declared = ivl.norm(inst.runs)
    if ivl.intersect(accept, reject):
        ctx.error('path regions overlap in %s %s' % (inst.id, item)); return None
    if ivl.union(accept, reject) != dom:
        ctx.error('path regions do not cover the input type in %s %s: %s' % (inst.id, item, ivl.show(ivl.diff(dom, ivl.union(accept, reject), lo, hi)))); return None
    fd = ivl.first_diff(accept, declared)
    if fd:
        n, side = fd
        if side == 'only-left':
            d = 'n = %d: returns %s(transmute(n)) but no variant has discriminant %d (an invalid enum value is produced)' % (n, okv, n)
            cls = 'sound'
        else:
            d = 'n = %d: returns %s although a variant with discriminant %d is declared' % (n, 'None' if okv == 'Some' else 'Err(())', n)
            cls = 'complete'
        ctx.violation(cls, inst, item, d + '; accepted set %s, declared %s' % (ivl.show(accept), ivl.show(declared)), key='%s/%s/%s' % (ctx.prop, cls, item), construct=con)
        return None
    ctx.ok('accept-set', inst)
    return accept

def check_instance(inst, F, ctx, extra):
    I = Items(inst)
    V = View(inst, I, F)
    did = False
    it = I.require_fn(ctx, 'try_from')
    if it is not None:
        did = True
        check_try_from(inst, V, ctx, I.body(it['path']), 'try_from', 'Some')
    if 'TryFrom' in inst.feats:
        fs = I.trait_fn('core::convert::TryFrom', 'try_from')
        if not fs:
            ctx.violation('exists', inst, 'TryFrom', 'TryFrom impl not found', construct=GEN_FILE['TryFrom'])
        for im, p in fs:
            did = True
            check_try_from(inst, V, ctx, I.body(p), 'TryFrom', 'Ok')
    it = I.require_fn(ctx, 'into')
    if it is not None:
        did = True
        check_into(inst, I, ctx, it['path'], 'into')
    if 'Into' in inst.feats:
        for im, p in I.trait_fn('core::convert::From', 'from', lambda t, im: t['k'] == 'int'):
            did = True
            check_into(inst, I, ctx, p, 'Into')
    if did:
        ctx.nontrivial.add(tuple(inst.rec['classes'][:5]))
        tables.check_tables(inst, F, ctx, {'T4'} if 'T4' in V.used else set())
        if len(ctx.samples) < 4 and not inst.gapless and 'try_from' in inst.feats:
            ctx.sample({'instance': inst.describe()[:300], 'accept_set_of_try_from': ivl.show(ivl.norm(inst.runs)), 'decided': 'for all n of %s' % inst.repr})

def main(tier, seed, t0):
    st, d = runner.stage_inst(tier, seed)
    ctx, n = runner.run_instances('props.c01', d)
    return runner.finish(PROP, tier, seed, 'translation_validation', ctx, t0,
                         coverage_extra={'instances_in_corpus': n, 'cache_hit': st.hit, 'tree': st.tree},
                         assumptions=['the input set taking each CFG path is computed by interval arithmetic over comparison guards and run-table membership; scan loops are summarised by the first-match idiom (rules/scan.py)'])
