"""C16 - generated code is independent of user scope (DESIGN.md 5).
(a) absolute-path lint over every quote! template of the generator (syn-parsed after de-interpolation);
(b) hostile-context accept witnesses: instances re-emitted in #![no_std] crates, under no_implicit_prelude, next to
    user items / modules / macros named like prelude and core items;
(c) behaviour identity: the same item rules pass on the hostile copies and every derived body resolves to the same
    callees as in the clean context."""
import json, os
from lib import runner
from rules import gen as G
from rules.ctx import Ctx
from rules.mir import callee_key
from props import c02, c08

PROP = 'C16'
TEMPLATE_FLOOR = 40       # non-vacuity, not an exact count: merging or splitting templates is a legitimate refactor (55 today)
FIXTURE_EXPECT = {'bad_std': 'L1-path', 'bad_bare': 'L2-bare', 'bad_macro': 'L3-macro'}

def callee_seq(inst):
    out = {}
    pre = inst.crate.name + '::'
    for path, b in inst.bodies.items():
        if b['kind'] not in ('Fn', 'AssocFn', 'Closure') or not b['from_expansion']:
            continue
        seq = []
        for blk in b['mir']['blocks']:
            t = blk['term']
            if t.get('t') == 'call' and 'callee' in t:
                c = inst.crate.C(t['callee'])
                p = c['path']
                seq.append(p[len(pre):] if p.startswith(pre) else p)
        out[path[len(pre):]] = seq
    return out

def check_instance(inst, F, ctx, extra):
    """runs on the hostile stage; extra['clean'] maps instance id -> callee sequences in the clean context"""
    ctx.nontrivial.add(tuple(inst.rec['classes']))
    c02.check_instance(inst, F, ctx, None)
    c08.check_instance(inst, F, ctx, None)
    clean = extra['clean'].get(inst.id)
    if clean is None:
        if not extra.get('clean_failed'):
            ctx.error('instance %s missing from the clean stage' % inst.id)
        return          # the clean context itself did not compile: reported once as witness-rejected by main()
    mine = callee_seq(inst)
    if mine != clean:
        diff = [k for k in sorted(set(mine) | set(clean)) if mine.get(k) != clean.get(k)]
        k = diff[0]
        ctx.violation('resolution-identity', inst, k.split('::')[-1], 'in the hostile context %s resolves its calls to %s, in the clean context to %s' % (k, mine.get(k), clean.get(k)), key='C16/resolution-identity')
    else:
        # all callees outside the witness crate live in core
        bad = [c for seq in mine.values() for c in seq if not (c.startswith('core::') or c.startswith(inst.id))]
        if bad:
            ctx.violation('callee-in-core', inst, 'callee', 'derived code calls %s, which is neither in core nor derived' % bad[0], key='C16/callee-in-core')
        else:
            ctx.ok('resolution-identity', inst)

def clean_worker(args):
    fact_path, recs = args
    import sys
    sys.path.insert(0, runner.VERIF)
    from rules.facts import Crate, Inst
    cr = Crate(fact_path)
    return {r['id']: callee_seq(Inst(r, cr)) for r in recs}

def main(tier, seed, t0):
    ctx = Ctx(PROP)
    # ---- (a) lint
    gst, gd = G.stage_gen()
    g = G.load(gd)
    qs = G.all_quotes(g)
    n_t = 0
    sib = G.sibling_imports(qs, os.path.join(runner.X.REPO, 'src'))
    for q in qs:
        n_t += 1
        fs = G.lint_template(q, sib.get((q['file'], q['fn']), ()) if q['parsed'] and q['parsed']['wrapper'] in ('arms', 'expr', 'exprs', 'type', 'stmts', 'where', 'generics') else ())
        for rule, msg in fs:
            ctx.violation(rule, None, '%s::%s' % (q['file'], q['fn']), '%s  [template in src/%s, fn %s, under %s]' % (msg, q['file'], q['fn'], ' / '.join(q['conds']) or 'no condition'),
                          key='C16/%s/%s::%s' % (rule, q['file'], q['fn']), construct='src/%s::%s' % (q['file'], q['fn']))
        if not fs:
            ctx.ok('path-lint')
    if n_t < TEMPLATE_FLOOR:
        ctx.error('only %d quote! templates found, floor is %d' % (n_t, TEMPLATE_FLOOR))
    fx = G.load(gd, 'fixture_c16')
    flagged = {}
    for q in G.all_quotes(fx):
        flagged[q['fn']] = [r for r, _ in G.lint_template(q)]
    for fn, rule in FIXTURE_EXPECT.items():
        if rule not in flagged.get(fn, []):
            ctx.error('positive fixture %s was not flagged with %s (got %s): the lint is broken' % (fn, rule, flagged.get(fn)))
    if flagged.get('good'):
        ctx.error('negative fixture `good` was flagged: %s' % flagged['good'])
    # ---- (b), (c) hostile witnesses
    st, d = runner.stage_inst(tier, seed)
    hst, hd = runner.stage_inst(tier, seed, hostile=True)
    with open(os.path.join(hd, 'instances.json')) as f:
        hrecs = json.load(f)
    ids = {r['id'] for r in hrecs}
    with open(os.path.join(d, 'instances.json')) as f:
        recs = [r for r in json.load(f) if r['id'] in ids]
    by = {}
    for r in recs:
        by.setdefault(r['crate'], []).append(r)
    import concurrent.futures as cf
    clean = {}
    cjobs = [(os.path.join(d, 'facts', c + '.json'), rs) for c, rs in by.items() if os.path.exists(os.path.join(d, 'facts', c + '.json'))]
    try:
        with cf.ProcessPoolExecutor(max_workers=min(16, max(1, len(cjobs)))) as ex:
            for m in ex.map(clean_worker, cjobs):
                clean.update(m)
    except cf.process.BrokenProcessPool:
        clean = {}
        for j in cjobs:
            clean.update(clean_worker(j))
    # the plain contexts of the corpus are program contexts too (module scope, function-body scope, an enum named like a
    # core item, a second derive next to it): a witness that does not compile there is a violation of this property as well
    with open(os.path.join(d, 'errors.json')) as f:
        cerrs = json.load(f)
    with open(os.path.join(d, 'instances.json')) as f:
        allrecs = {r['id']: r for r in json.load(f)}
    for e in cerrs['errors']:
        rec = allrecs.get(e.get('instance'))
        ctx.violation('witness-rejected', runner._FakeInst(rec) if rec else None, 'derive',
                      'a supported declaration/configuration does not compile%s: %s%s' % (' (context: %s)' % rec['kind'] if rec else '', e['message'], (' [%s]' % e['code']) if e.get('code') else ''),
                      key='C16/witness-rejected/%s' % ((e.get('code') or e['message'])[:60]), kind='witness-rejected')
    hctx, n = runner.run_instances('props.c16', hd, extra={'clean': clean, 'clean_failed': bool(cerrs['errors'])})
    ctx.merge(hctx)
    ctx.sample({'templates_linted': n_t, 'fixture_flags': flagged})
    ctx.sample({'hostile_module_header': 'pub struct Option; pub struct Some; pub struct None; ... pub trait Iterator {} ... pub mod core {} pub mod std {} macro_rules! panic/unreachable/matches/write/assert ... in a #![no_std] crate, #![no_implicit_prelude] module', 'instances': n})
    return runner.finish(PROP, tier, seed, 'other', ctx, t0,
                         explanation='(a) %d quote! templates parsed with syn after de-interpolation; every path must be an absolute ::core path, Self/self, an interpolation, a primitive, a template-local binding, or a name imported by `use ::core::..` inside the template; every macro call must go through ::core; positive and negative fixtures are checked on every run. (b) %d instances (every feature x mode x gapless/holes single-feature instance, the mode matrix, the auto-steering sets and a third of the full instances) are recompiled in #![no_std] crates whose modules define structs, traits, functions, modules and macros named like prelude/core items. (c) on those copies all item rules (C01-C08) are re-run and the resolved callee sequence of every derived body must equal the one in the clean context and lie in core.' % (n_t, n),
                         coverage_extra={'templates': n_t, 'hostile_instances': n, 'cache_hit': [st.hit, hst.hit, gst.hit], 'tree': st.tree},
                         nontrivial_rule='distinct instance class vectors recompiled in the hostile context',
                         assumptions=['the lint cannot see trait-method lookups; rustc\'s resolver on the hostile witnesses decides those',
                                      'shadowing of primitive type names (struct usize;) is outside the property\'s list and not examined'])
