"""C09 - modes and auto selection never change observable behaviour (DESIGN.md 5).

Every item rule of C01-C08 compares an item with a *mode-free* specification (a function of the sorted variant
list and the names).  An item that passes its rules in two configurations therefore behaves identically in both.
This check runs all item rules over the configuration matrix: every explicit mode of the four moded features, auto
under every co-feature set that steers it, on gapless and with-holes declarations, and on every other instance of
the corpus.  What auto resolves to is not prescribed; whatever it resolves to is validated."""
from lib import runner
from props import c01, c02, c03, c04, c05, c06, c07, c08

PROP = 'C09'

def resolved_modes(inst, V_used=None):
    return tuple(sorted((f, p.get('mode', 'auto')) for f, p in inst.feats.items() if f in ('as_str', 'from_str', 'FromStr', 'iter')))

def check_instance(inst, F, ctx, extra):
    own = ctx.nontrivial | {(inst.repr, inst.decl['label'], resolved_modes(inst), tuple(sorted(inst.feats)))}
    ctx.nontrivial = set()
    # c02 runs the rules of C01, C03, C04, C05, C06, C07 (and enumerates the unsafe obligations);
    c02.check_instance(inst, F, ctx, extra)
    c08.check_instance(inst, F, ctx, extra)
    ctx.nontrivial = own
    if len(ctx.samples) < 6 and inst.rec['kind'] in ('steer', 'matrix'):
        ctx.sample({'instance': inst.describe()[:300], 'kind': inst.rec['kind'], 'items_validated_against_mode_free_spec': sorted(inst.feats)})

def main(tier, seed, t0):
    st, d = runner.stage_inst(tier, seed)
    ctx, n = runner.run_instances('props.c09', d)
    return runner.finish(PROP, tier, seed, 'translation_validation', ctx, t0,
                         coverage_extra={'instances_in_corpus': n, 'cache_hit': st.hit, 'tree': st.tree},
                         nontrivial_rule='distinct (repr, value-shape, mode vector of as_str/from_str/FromStr/iter, feature set) tuples',
                         assumptions=['behavioural equality across configurations follows from every configuration passing the same mode-free rules; it is not observed by running anything'])
