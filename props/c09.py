"""C09 - modes and auto selection never change observable behaviour (DESIGN.md 5).

Every item rule of C01-C08 compares an item with a *mode-free* specification (a function of the sorted variant
list and the names).  An item that passes its rules in two configurations therefore behaves identically in both.
This check runs all item rules over the configuration matrix: every explicit mode of the four moded features, auto
under every co-feature set that steers it, on gapless and with-holes declarations, and on every other instance of
the corpus.  What auto resolves to is not prescribed; whatever it resolves to is validated.
Non-interference: for a feature with a fixed explicit mode, its own items (function, trait impl, struct and its impls)
must expand to identical token streams whether the feature stands alone, next to any other feature, or in the full
set - so co-enabled features can influence an item only through its mode."""
from lib import runner
from props import c01, c02, c03, c04, c05, c06, c07, c08

PROP = 'C09'

def resolved_modes(inst, V_used=None):
    return tuple(sorted((f, p.get('mode', 'auto')) for f, p in inst.feats.items() if f in ('as_str', 'from_str', 'FromStr', 'iter')))

def check_instance(inst, F, ctx, extra):
    own = ctx.nontrivial | {(inst.repr, inst.decl['label'], resolved_modes(inst), tuple(sorted(inst.feats)))}
    ctx.nontrivial = set()
    # c02 runs the rules of C01, C03, C04, C05, C06, C07 (and enumerates the unsafe obligations);
    c02.check_instance(inst, F, ctx, extra)
    c08.check_instance(inst, F, ctx, extra)
    ctx.nontrivial = own
    if len(ctx.samples) < 6 and inst.rec['kind'] in ('steer', 'matrix'):
        ctx.sample({'instance': inst.describe()[:300], 'kind': inst.rec['kind'], 'items_validated_against_mode_free_spec': sorted(inst.feats)})

import re
_TOK = re.compile(r'"(?:[^"\\]|\\.)*"|\w+|\S')

def equiv(a, assoc_a, b, assoc_b):
    """token strings a, b are equal up to a consistent (bijective) renaming of the associated items of `impl E` they refer to:
    a co-enabled feature may turn a private helper (`__MIN`, or whatever the derive calls it) into the user-visible item (`MIN`) - the
    cross-reference changes its name, not its meaning (the item behind either name is validated by its own rules)"""
    if a == b:
        return True
    ta, tb = _TOK.findall(a), _TOK.findall(b)
    if len(ta) != len(tb):
        return False
    fwd, bwd = {}, {}
    for x, y in zip(ta, tb):
        if x == y and x not in fwd and y not in bwd:
            continue
        if x in assoc_a and y in assoc_b or (x in fwd or y in bwd):
            if fwd.setdefault(x, y) != y or bwd.setdefault(y, x) != x:
                return False
            continue
        return False
    return True

def own_items(mods_items, feature):
    """token strings of the items that belong to `feature` in one expanded module: {label: tokens}"""
    out = {}
    assoc = {m['name'] for it in mods_items if it['kind'] == 'item' and it.get('key', '') == 'impl E' for m in it.get('members', [])}
    trait_key = {'FromStr': ':: core :: str :: FromStr for E', 'TryFrom': ':: core :: convert :: TryFrom <', 'Debug': ':: core :: fmt :: Debug for E'}
    for it in mods_items:
        if it['kind'] != 'item':
            continue
        key = it.get('key', '')
        if key == 'impl E':
            for m in it.get('members', []):
                if m['name'] == feature:
                    out['fn ' + feature] = m['tokens']
        if feature in trait_key and trait_key[feature] in key:
            out[key] = it['tokens']
        if feature in ('iter', 'names'):
            sname = 'EIter' if feature == 'iter' else 'ENames'
            if key == 'struct ' + sname or key.endswith('for ' + sname):
                out[key] = it['tokens']
    return out, assoc

def non_interference(ctx, tier, seed):
    est, ex = runner.stage_expand(tier, seed)
    fams = {}
    for x in ex['instances']:
        if x['kind'].startswith('noninterf:'):
            fams.setdefault((x['kind'], x['family']), []).append(x)
    n = 0
    for (kind, fid), ms in sorted(fams.items()):
        _, feature, mode = kind.split(':')
        ref = None
        for m in ms:
            its = ex['mods'].get(m['id'])
            if its is None:
                continue
            mine, assoc = own_items(its, feature)
            if not mine:
                ctx.error('non-interference: no item of %s found in %s' % (feature, m['id'])); continue
            if ref is None:
                ref = (m, mine, assoc); continue
            if set(mine) != set(ref[1]) or not all(equiv(ref[1][k], ref[2], mine[k], assoc) for k in mine):
                k = next((k for k in sorted(set(mine) | set(ref[1])) if k not in mine or k not in ref[1] or not equiv(ref[1][k], ref[2], mine[k], assoc)), '?')
                a, b = ref[1].get(k, ''), mine.get(k, '')
                j = next((i for i in range(min(len(a), len(b))) if a[i] != b[i]), min(len(a), len(b)))
                ctx.violation('non-interference', None, '%s(mode=%s)' % (feature, mode), 'the expansion of `%s` of %s(mode=%s) depends on which other features are enabled: %s vs %s on %s: ...%s... vs ...%s...' % (
                    k, feature, mode, ref[0]['member'], m['member'], ' '.join(str(v['value']) for v in sorted(m['decl']['variants'], key=lambda v: v['value'])), a[max(0, j - 50):j + 70], b[max(0, j - 50):j + 70]),
                    key='C09/non-interference/%s/%s' % (feature, mode), construct='the generate() of %s and src/generator/features.rs::resolve' % feature)
                break
        else:
            if ref is not None:
                n += 1
                ctx.ok('non-interference', n=len(ms) - 1)
    if n < 20:
        ctx.error('only %d non-interference families compared (floor 20)' % n)
    return n

def main(tier, seed, t0):
    st, d = runner.stage_inst(tier, seed)
    ctx, n = runner.run_instances('props.c09', d)
    nfam = non_interference(ctx, tier, seed)
    return runner.finish(PROP, tier, seed, 'translation_validation', ctx, t0,
                         coverage_extra={'instances_in_corpus': n, 'non_interference_families': nfam, 'cache_hit': st.hit, 'tree': st.tree},
                         nontrivial_rule='distinct (repr, value-shape, mode vector of as_str/from_str/FromStr/iter, feature set) tuples',
                         assumptions=['behavioural equality across configurations follows from every configuration passing the same mode-free rules; it is not observed by running anything'])
