"""C11 - declarations in the documented domain are accepted with the compiler's discriminants (DESIGN.md 5)."""
import time
from lib import runner
from rules import tables
from rules.items import Items, GEN_FILE
from rules.mir import show

PROP = 'C11'

def check_instance(inst, F, ctx, extra):
    ctx.nontrivial.add(tuple(inst.rec['classes'][:5]))
    # the specification's reading of the declaration must be rustc's (otherwise the corpus generator is wrong)
    if inst.rustc_discr is None:
        ctx.error('enum %s not found in fact file' % inst.enum_path); return
    for v in inst.decl['variants']:
        if inst.rustc_discr.get(v['ident']) != v['value']:
            ctx.error('corpus generator disagrees with rustc on %s::%s: %r vs %r' % (inst.id, v['ident'], v['value'], inst.rustc_discr.get(v['ident'])))
            return
    ctx.ok('accepted', inst)
    # every table the derive emitted agrees with the compiler's numbering
    tables.check_tables(inst, F, ctx, {'T1', 'T2', 'T3', 'T4', 'T4-offset'})
    # `into` / From<E> for R return the compiler's discriminant
    I = Items(inst)
    it = I.assoc_fn('into')
    if it is not None:
        check_into(inst, I, ctx, it['path'], 'into')
    if 'Into' in inst.feats:
        fs = I.trait_fn('core::convert::From', 'from', lambda t, im: t['k'] == 'int')
        if not fs:
            ctx.violation('into-cast', inst, 'Into', 'From<E> for %s impl not found' % inst.repr, construct=GEN_FILE['Into'])
        for im, p in fs:
            check_into(inst, I, ctx, p, 'Into')
    # the association in the other direction: try_from / TryFrom map exactly the compiler's discriminants back to their variants
    from props.c01 import check_try_from
    from rules.shapes import View as _View
    _V = _View(inst, I, F)
    tf = I.assoc_fn('try_from')
    if tf is not None:
        check_try_from(inst, _V, ctx, I.body(tf['path']), 'try_from', 'Some')
    if 'TryFrom' in inst.feats:
        for im, p in I.trait_fn('core::convert::TryFrom', 'try_from'):
            check_try_from(inst, _V, ctx, I.body(p), 'TryFrom', 'Ok')
    # discriminants re-emitted as literals / variant lists by the iterator constructor (range and table_inline modes)
    if 'iter' in inst.feats:
        from rules import r_iter as R
        from rules.shapes import View
        from props.c06 import struct_name
        V = View(inst, I, F)
        spath = inst.mod + '::' + struct_name(inst, 'iter')
        kind, adt = R.struct_kind(inst, spath)
        fn = I.assoc_fn('iter')
        if kind == 'forward' and fn is not None:
            b = I.body(fn['path'])
            alts = b.ret_alternatives()
            if len(alts) == 1 and not b.loops():
                t = V.strip(alts[0][1])
                if t[0] == 'agg' and t[1].startswith('adt|' + spath + '|') and t[2]:
                    R.check_inner_ctor(inst, V, ctx, t[2][0], 'iter', 'iter')
    if len(ctx.samples) < 3 and inst.decl['spelling'] in ('fancy', 'mixed'):
        ctx.sample({'instance': inst.describe()[:300], 'rustc_discriminants': {v['ident']: v['value'] for v in inst.decl['variants'][:8]}})

def check_into(inst, I, ctx, path, item):
    b = I.body(path)
    alts = b.ret_alternatives()
    ok = len(alts) == 1 and alts[0][1] == ('discr', ('arg', 0))
    if not ok and len(alts) == 1:
        t = alts[0][1]
        # `self as R` where the discriminant type differs from R cannot happen for a primitive repr; accept an explicit cast to R
        ok = t[0] == 'cast' and t[3] == ('discr', ('arg', 0)) and t[2] == inst.repr
    if ok:
        ctx.ok('into-cast', inst)
    else:
        ctx.violation('into-cast', inst, item, 'returns %s, required the discriminant of its argument (`self as %s`)' % (' | '.join(show(a[1]) for a in alts), inst.repr),
                      key='%s/into-cast/%s' % (ctx.prop, item), construct=GEN_FILE[item])

def extra_cases(tier):
    from corpus import rejects as RJ
    cs = [RJ.big_enum_case(65534, 'C11', 'accept')]
    cs[0]['class'] = 'size/65534-largest-supported'
    attrs = ['#[allow(dead_code)]', '/// documentation on the enum', '#[doc = "more"]', '#[cfg_attr(all(), allow(unused))]', '#[must_use]', '#[non_exhaustive]', '#[rustfmt::skip]',
             '#[allow(clippy::enum_variant_names)]', '#[cfg_attr(all(), rustfmt::skip)]']
    body = ['#[derive(Clone, Copy, EnumTools, PartialEq, Eq, PartialOrd, Ord, Hash, Debug)]'] + attrs + ['#[enum_tools(into, try_from, MIN, MAX, next, next_back, iter, names, as_str, from_str, range, Display, FromStr, Into, IntoStr, TryFrom)]', '#[repr(i16)]',
            'pub enum E { /// first', '#[allow(unused)] #[rustfmt::skip] A = -3, #[doc = "b"] #[cfg_attr(all(), allow(dead_code))] B, #[deprecated] C = 0x10, /** block doc */ #[enum_tools(rename = "dd")] #[allow(non_camel_case_types)] D_d = 0b1_0001, }']
    cs.append(RJ.case('c11_foreign_attrs', 'C11', 'foreign-attributes', body, 'accept'))
    cs[-1]['with_prelude'] = True
    # foreign list attributes on variants whose arguments are not one meta item: several items, a bare literal, nested lists
    bodyv = ['#[derive(Clone, Copy, EnumTools)]', '#[enum_tools(into, try_from, MIN, MAX, next, iter, names, as_str, from_str)]', '#[repr(u8)]',
             'pub enum E { #[allow(dead_code, non_camel_case_types)] a_a = 1, #[deprecated(since = "1.0", note = "gone")] B = 2, #[doc(alias = "c1", alias = "c2")] C = 3,',
             '#[cfg_attr(all(), allow(unused), allow(dead_code))] D = 4, #[allow()] F = 5, #[doc(alias("x", "y"))] G = 6, #[allow(clippy::all, unused)] #[enum_tools(rename = "h")] H = 7,',
             '#[cfg(all())] I = 8, #[cfg(any(unix, not(unix)))] J = 9, #[expect(dead_code, reason = "probe")] K = 10 }']
    cs.append(RJ.case('c11_foreign_variant_attrs', 'C11', 'foreign-variant-attributes/multi-item', bodyv, 'accept'))
    cs[-1]['with_prelude'] = True
    body2 = ['#[derive(Clone, Copy, EnumTools)]', '#[enum_tools(into, MIN, MAX, try_from)]', '#[repr(u64)]', '#[allow(clippy::all)]', 'pub enum E { A = 0o17, B = 1_0, C = 0xFFu64, D = 9_223_372_036_854_775_807, }']
    cs.append(RJ.case('c11_spellings', 'C11', 'literal-spellings', body2, 'accept'))
    body3 = ['#[derive(Clone, Copy, EnumTools)]', '#[enum_tools(into, MIN, MAX, try_from, next)]', '#[repr(i64)]', 'pub enum E { A = -9_223_372_036_854_775_808, B = -0x7FFF_FFFF_FFFF_FFFF, C = -0b1, D = -0o7i64, E = -0 }']
    cs.append(RJ.case('c11_negative_spellings', 'C11', 'negated-literal-spellings', body3, 'accept'))
    # the documented compile-time feature `sorted` must not narrow the accepted domain of sorted declarations
    for nm, attr, vs in [('neg-first', 'sorted(value)', ['A = -40', 'B = -3', 'C = 7']), ('i64-min-first', 'sorted(value)', ['A = -9223372036854775808', 'B = -1', 'C']),
                         ('both', 'sorted(name, value)', ['A = -2', 'B', 'C = 5']), ('name-only-values-free', 'sorted(name)', ['A = 5', 'B = -7', 'C = 0'])]:
        cs.append(RJ.case('c11_sorted_' + nm.replace('-', '_'), 'C11', 'sorted-accept/' + nm, ['#[derive(Clone, Copy, EnumTools)]', '#[enum_tools(%s, into, try_from, MIN, MAX, iter, as_str(mode = "table"), from_str(mode = "table"), names)]' % attr, '#[repr(i64)]', 'pub enum E { %s }' % ', '.join(vs)], 'accept'))
    # attribute order: repr before / between the enum_tools attributes
    for nm, lines in [('repr-first', ['#[repr(u8)]', '#[enum_tools(into, MIN)]', '#[enum_tools(try_from, iter)]']), ('repr-middle', ['#[enum_tools(into, MIN)]', '#[repr(u8)]', '#[enum_tools(try_from, iter)]']),
                      ('repr-before-derive', None)]:
        if lines is None:
            body = ['#[repr(u8)]', '#[derive(Clone, Copy, EnumTools)]', '#[enum_tools(into, MIN, try_from, iter)]', 'pub enum E { A, B }', 'pub fn probe() { let _ = E::A.into(); let _ = E::MIN; let _ = E::try_from(0); let _ = E::iter(); }']
        else:
            body = ['#[derive(Clone, Copy, EnumTools)]'] + lines + ['pub enum E { A, B }', 'pub fn probe() { let _ = E::A.into(); let _ = E::MIN; let _ = E::try_from(0); let _ = E::iter(); }']
        cs.append(RJ.case('c11_attr_' + nm.replace('-', '_'), 'C11', 'attribute-order/' + nm, body, 'accept'))
    return cs

def main(tier, seed, t0):
    st, d = runner.stage_inst(tier, seed)
    ctx, n = runner.run_instances('props.c11', d)
    cases = extra_cases(tier)
    bst, br = runner.stage_batch('c11-' + tier, cases)
    runner.judge_batch(ctx, cases, br, PROP)
    ctx.programs |= {c['id'] for c in cases}
    return runner.finish(PROP, tier, seed, 'translation_validation', ctx, t0,
                         coverage_extra={'instances_in_corpus': n, 'cache_hit': st.hit, 'tree': st.tree},
                         assumptions=['the quantifier over all declarations is covered by the class-structured corpus of DESIGN.md 3.3, not closed'])
