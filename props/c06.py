"""C06 - iter() is a double-ended exact-size fused iterator over all variants ascending (DESIGN.md 5)."""
from lib import runner
from rules import tables
from rules.items import Items, GEN_FILE, shape
from rules.shapes import View
from rules.mir import show
from rules import r_iter as R

PROP = 'C06'

def struct_name(inst, f):
    p = inst.feats.get(f, {})
    return p.get('struct_name') or (inst.enum_name + ('Iter' if f == 'iter' else 'Names'))

def check_iter(inst, V, ctx, checked_steps):
    """returns ('forward', None) | ('cursor', roles) | None"""
    I = V.I
    spath = inst.mod + '::' + struct_name(inst, 'iter')
    kind, adt = R.struct_kind(inst, spath)
    con = GEN_FILE['iter']
    if kind is None:
        ctx.violation('exists', inst, 'iter', 'iterator struct %s not found' % spath, construct=con); return None
    it = I.assoc_fn('iter')
    if it is None:
        ctx.violation('exists', inst, 'iter', 'iter function not found', construct=con); return None
    b = I.body(it['path'])
    alts = b.ret_alternatives()
    if len(alts) != 1 or b.loops():
        ctx.violation('constructor', inst, 'iter', 'iter() is not a single constructor expression', kind='unrecognised', construct=con); return None
    t = V.strip(alts[0][1])
    if t[0] != 'agg' or not t[1].startswith('adt|' + spath + '|'):
        ctx.violation('constructor', inst, 'iter', 'iter() returns %s' % show(t), kind='unrecognised', construct=con); return None
    if kind == 'forward':
        ok = R.check_forwarding(inst, V, ctx, spath, 'iter')
        ok &= R.check_inner_ctor(inst, V, ctx, t[2][0], 'iter', 'iter')
        return ('forward', None) if ok else None
    if kind == 'cursor':
        roles = R.check_cursor(inst, V, ctx, spath, checked_steps)
        if roles is None:
            return None
        ops = t[2]
        def fv(x):
            return V.F.try_fold(x)
        S0 = ('adt', 'core::option::Option', 'Some', [('variant', inst.enum_path, inst.S[0]['ident'])])
        S1 = ('adt', 'core::option::Option', 'Some', [('variant', inst.enum_path, inst.S[-1]['ident'])])
        got = (fv(ops[roles['fwd']]), fv(ops[roles['bwd']]), fv(ops[roles['len']]))
        want = (S0, S1, ('int', 'usize', len(inst.S)))
        if got != want:
            def sh(v):
                if v is None: return '?'
                if v[0] == 'adt': return 'Some(%s)' % v[3][0][2]
                if v[0] == 'int': return str(v[2])
                return str(v)
            ctx.violation('constructor', inst, 'iter', 'iter() starts with front=%s back=%s len=%s, required front=Some(%s) back=Some(%s) len=%d (MIN, MAX, number of variants)' % (
                sh(got[0]), sh(got[1]), sh(got[2]), inst.S[0]['ident'], inst.S[-1]['ident'], len(inst.S)), key='C06/constructor/iter/cursor', construct='src/feature/iter/next_and_back.rs::iter_next_and_back (inner)')
            return None
        ctx.ok('constructor', inst)
        return ('cursor', roles)
    ctx.violation('constructor', inst, 'iter', 'iterator struct has an unknown shape (%d fields)' % len(adt.get('fields', [])), kind='unrecognised', construct=con)
    return None

def check_instance(inst, F, ctx, extra):
    if 'iter' not in inst.feats:
        return
    I = Items(inst)
    V = View(inst, I, F)
    r = check_iter(inst, V, ctx, {})
    ctx.nontrivial.add(tuple(inst.rec['classes'][:5]) + (inst.feats['iter'].get('mode', 'auto'),))
    tables.check_tables(inst, F, ctx, ({'T3'} if 'T3' in V.used else set()) | ({'T4'} if 'T4' in V.used else set()))
    if r and len(ctx.samples) < 5:
        ctx.sample({'instance': inst.describe()[:300], 'reduction': r[0], 'decided': 'for all finite sequences of iterator operations, by reduction to %s' % ('a core iterator over the folded constructor term' if r[0] == 'forward' else 'the verified next/next_back and the cursor invariant')})

def main(tier, seed, t0):
    st, d = runner.stage_inst(tier, seed)
    ctx, n = runner.run_instances('props.c06', d)
    return runner.finish(PROP, tier, seed, 'translation_validation', ctx, t0,
                         coverage_extra={'instances_in_corpus': n, 'cache_hit': st.hit, 'tree': st.tree},
                         assumptions=['core iterator algebra is trusted (Map<RangeInclusive>, Copied<slice::Iter>, array::IntoIter are double-ended, exact-size, fused)',
                                      'the histories quantifier is discharged by the forwarding reduction / cursor invariant (rules/r_iter.py), not sampled'])
