"""C19 - generated items have the documented signatures, const where documented (DESIGN.md 5).
Decided from tcx facts: fn_sig, is_const_fn, associated-const types, trait impls with associated types."""
from lib import runner
from rules import sigs
from rules.items import GEN_FILE, shape

PROP = 'C19'

ITER_TRAITS = ['core::iter::traits::iterator::Iterator', 'core::iter::traits::double_ended::DoubleEndedIterator',
               'core::iter::traits::exact_size::ExactSizeIterator', 'core::iter::traits::marker::FusedIterator']

def struct_name(inst, f):
    p = inst.feats.get(f, {})
    return p.get('struct_name') or (inst.enum_name + ('Iter' if f == 'iter' else 'Names'))

def check_instance(inst, F, ctx, extra):
    cr = inst.crate
    E = lambda t: sigs.is_enum(inst, t)
    R = lambda t: sigs.is_repr(inst, t)
    mode = {f: inst.feats[f].get('mode', 'auto') for f in inst.feats}
    def bad(item, what, rule='signature'):
        ctx.violation(rule, inst, item, what, key='C19/%s/%s' % (rule, item), construct=GEN_FILE.get(item))
    def fn(feature):
        nm = inst.feature_name(feature)
        if nm is None:
            return None
        it = inst.assoc.get(nm)
        if it is None:
            bad(feature, 'requested item `%s` does not exist in the derive impl' % nm, 'exists'); return None
        ctx.nontrivial.add((feature, mode.get(feature), shape(inst), inst.repr))
        return it
    def sig(feature, inputs, output, const=None):
        it = fn(feature)
        if it is None:
            return
        if it['kind'] != 'AssocFn':
            bad(feature, '`%s` is a %s, documented as a function' % (it['name'], it['kind'])); return
        ok = len(it['inputs']) == len(inputs) and all(p(t) for p, t in zip(inputs, it['inputs'])) and output(it['output']) and not it['unsafe'] and it['generics'] == 0
        if not ok:
            bad(feature, 'signature is fn(%s) -> %s%s' % (', '.join(sigs.show(inst, t) for t in it['inputs']), sigs.show(inst, it['output']), ' (unsafe)' if it['unsafe'] else ''))
        else:
            ctx.ok('signature', inst)
        if const is True and not it['const_fn']:
            bad(feature, '`%s` is documented as `const fn` but is not const in this configuration' % it['name'], 'const')
        elif const is True:
            ctx.ok('const', inst)
        ctx.facts.add(('const', feature, bool(it['const_fn']), shape(inst), str(mode.get(feature))))
    def cst(feature):
        it = fn(feature)
        if it is None:
            return
        if not it['kind'].startswith('AssocConst') or not E(it['ty']):
            bad(feature, '`%s` is %s of type %s, documented as an associated constant of the enum type' % (it['name'], it['kind'], sigs.show(inst, it.get('ty', it.get('output')))))
        else:
            ctx.ok('signature', inst)
    sig('into', [E], R, const=True)
    cst('MIN'); cst('MAX')
    optE = lambda t: sigs.is_option_of(inst, t, E)
    sig('next', [E], optE); sig('next_back', [E], optE)
    sig('try_from', [R], optE)
    sig('from_str', [lambda t: sigs.is_str_ref(inst, t)], optE)
    sig('as_str', [E], lambda t: sigs.is_static_str(inst, t))
    iter_struct = inst.mod + '::' + struct_name(inst, 'iter')
    names_struct = inst.mod + '::' + struct_name(inst, 'names')
    sig('iter', [], lambda t: sigs.is_adt(inst, t, iter_struct))
    sig('names', [], lambda t: sigs.is_adt(inst, t, names_struct))
    sig('range', [E, E], lambda t: sigs.is_adt(inst, t, iter_struct))
    # trait impls
    def impl_of(trait, self_pred, trait_arg_pred=None):
        out = []
        for im in inst.impls:
            if im.get('trait') != trait or not im['from_expansion']:
                continue
            if not self_pred(im['self_ty']):
                continue
            if trait_arg_pred and not (len(im['trait_args']) >= 2 and trait_arg_pred(im['trait_args'][1])):
                continue
            out.append(im)
        return out
    def assoc_ty(im, name):
        for it in im['items']:
            if it['name'] == name and 'ty' in it:
                return it['ty']
        return None
    def trait_feature(feature, trait, self_pred, arg_pred=None, assoc=None, assoc_pred=None):
        if feature not in inst.feats:
            return
        ctx.nontrivial.add((feature, mode.get(feature), shape(inst), inst.repr))
        ims = impl_of(trait, self_pred, arg_pred)
        if len(ims) != 1:
            bad(feature, 'expected exactly one impl of %s, found %d' % (trait, len(ims)), 'trait-impl'); return
        if assoc:
            t = assoc_ty(ims[0], assoc)
            if t is None or not assoc_pred(t):
                bad(feature, 'associated type %s = %s' % (assoc, sigs.show(inst, t) if t is not None else 'missing'), 'trait-impl'); return
        ctx.ok('trait-impl', inst)
    unit = lambda t: sigs.is_unit(inst, t)
    trait_feature('TryFrom', 'core::convert::TryFrom', E, R, 'Error', unit)
    trait_feature('FromStr', 'core::str::traits::FromStr', E, None, 'Err', unit)
    trait_feature('Into', 'core::convert::From', R, E)
    trait_feature('IntoStr', 'core::convert::From', lambda t: sigs.is_static_str(inst, t), E)
    trait_feature('Debug', 'core::fmt::Debug', E)
    trait_feature('Display', 'core::fmt::Display', E)
    # (the trait fixes the method signatures once the associated types are fixed; rustc enforces conformance)
    for feature, spath, item_pred in (('iter', iter_struct, E), ('names', names_struct, lambda t: sigs.is_static_str(inst, t))):
        if feature not in inst.feats:
            continue
        if spath not in cr.adts:
            bad(feature, 'iterator struct %s does not exist' % spath.split('::')[-1], 'exists'); continue
        sp = lambda t: sigs.is_adt(inst, t, spath)
        for tr in ITER_TRAITS:
            ims = impl_of(tr, sp)
            if len(ims) != 1:
                bad(feature, 'struct %s: expected exactly one impl of %s, found %d (iter mode %s, %s)' % (spath.split('::')[-1], tr.split('::')[-1], len(ims), mode.get('iter'), shape(inst)), 'iter-traits')
                continue
            if tr.endswith('::Iterator'):
                t = assoc_ty(ims[0], 'Item')
                if t is None or not item_pred(t):
                    bad(feature, 'Iterator::Item = %s' % (sigs.show(inst, t) if t is not None else 'missing'), 'iter-traits'); continue
            ctx.ok('iter-traits', inst)
    if len(ctx.samples) < 4 and 'into' in inst.feats and 'iter' in inst.feats:
        it = inst.assoc.get(inst.feature_name('into'))
        if it:
            ctx.sample({'instance': inst.describe()[:260], 'into': 'const_fn=%s fn(%s) -> %s' % (it['const_fn'], sigs.show(inst, it['inputs'][0]), sigs.show(inst, it['output']))})

def main(tier, seed, t0):
    st, d = runner.stage_inst(tier, seed)
    ctx, n = runner.run_instances('props.c19', d, extra={})
    # compile-time ascriptions: const contexts, fn pointers, trait bounds - per iter mode x string mode x shape
    from corpus import rejects as RJ
    cases = RJ.c19_cases(tier)
    bst, br = runner.stage_batch('c19-' + tier, cases)
    runner.judge_batch(ctx, cases, br, PROP, lambda c: 'the feature templates named in the rustc diagnostic')
    ctx.programs |= {c['id'] for c in cases}
    if len(cases) < 60:
        ctx.error('ascription witness count %d below floor 60' % len(cases))
    # const-ness is part of the signature: it must be the same for every shape and mode of a feature
    by = {}
    for f in ctx.facts:
        if f[0] == 'const':
            by.setdefault(f[1], {}).setdefault(f[2], set()).add((f[3], f[4]))
    for feature, cs in sorted(by.items()):
        if len(cs) == 2:
            ctx.violation('const-uniform', None, feature, '`%s` is a const fn for %s but not for %s: the signature depends on the shape / mode' % (
                feature, sorted(cs[True])[:4], sorted(cs[False])[:4]), key='C19/const-uniform/%s' % feature, construct=GEN_FILE.get(feature))
        else:
            ctx.ok('const-uniform')
    return runner.finish(PROP, tier, seed, 'translation_validation', ctx, t0,
                         coverage_extra={'instances_in_corpus': n, 'cache_hit': st.hit, 'tree': st.tree},
                         nontrivial_rule='distinct (item, mode, gapless/holes, repr) combinations whose signature was compared with the documented one',
                         assumptions=['signatures are read from rustc (fn_sig, is_const_fn, type_of, impl_trait_ref) for every instance of the configuration corpus'])
