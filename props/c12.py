"""C12 - declarations outside the supported domain never compile (DESIGN.md 5).
Reject witnesses, one per syntactic class of discriminant expression / field form / item kind / repr form /
i64-range violation, each paired with a compiling twin that differs only by the offending token(s)."""
from lib import runner
from rules.ctx import Ctx
from corpus import rejects as RJ

PROP = 'C12'
FLOOR = 90

def construct(c):
    k = c['class'].split('/')[0]
    return {'expr': 'src/parser/values.rs::parse_values (discriminant: Expr::Unary/UnOp::Neg once, then Expr::Lit/Lit::Int)',
            'range': 'src/parser/values.rs::parse_values (base10_parse::<i64>, I64Overflow)',
            'duplicate-value': 'src/parser/values.rs::parse_values (values.insert(..).is_some())',
            'duplicate-value-implicit': 'src/parser/values.rs::parse_values (values.insert(..).is_some())',
            'fields': 'src/parser/values.rs::parse_values (Fields::Unit)', 'item': 'src/parser/values.rs::parse_values (Data::Enum, NoVariantsFound)',
            'repr': 'src/parser/attr.rs::parse_attrs + src/parser/mod.rs::Derive::parse (repr whitelist)', 'size': 'src/parser/mod.rs::Derive::parse (num_values >= u16::MAX)'}.get(k)

def main(tier, seed, t0):
    cases = RJ.c12_cases(tier)
    cases.append(RJ.big_enum_case(65535, PROP, 'reject'))
    cases.append(RJ.big_enum_case(65536, PROP, 'reject'))          # one more than a 16-bit counter holds
    cases += RJ.mixed_c12(120 if tier == 'quick' else 1200, seed)
    if tier == 'thorough':
        cases.append(RJ.big_enum_case(70000, PROP, 'reject'))
        cases.append(RJ.big_enum_case(131070, PROP, 'reject'))
        cases.append(RJ.big_enum_case(131071, PROP, 'reject'))
    st, r = runner.stage_batch('c12-' + tier, cases)
    ctx = Ctx(PROP)
    ctx.programs = set(c['id'] for c in cases)
    runner.judge_batch(ctx, cases, r, PROP, construct)
    if len(cases) < FLOOR:
        ctx.error('witness count %d below floor %d' % (len(cases), FLOOR))
    for c in [c for c in cases if c['expect'] == 'reject'][:5]:
        ctx.sample({'case': c['id'], 'class': c['class'], 'source': ' '.join(c['body'])[:300], 'errors': [e['message'] for e in r['results'][c['id']]['errors']][:3]})
    return runner.finish(PROP, tier, seed, 'other', ctx, t0,
                         explanation='%d witnesses (%d reject, %d compiling twins): one per syn::Expr class that can follow `=`, per literal kind, per field form, per non-enum item kind, per repr form, plus i64-range and size-limit boundaries. A reject case passes only if an error raised by the derive (no rustc error code) is located in its module (for classes rustc rejects by itself any error counts); every twin must compile in a clean batch. The parser dispatches on the top-level syntax class only (src/parser/values.rs), so one witness per class covers the class.' % (
                             len(cases), len([c for c in cases if c['expect'] == 'reject']), len([c for c in cases if c['expect'] == 'accept'])),
                         coverage_extra={'witnesses': len(cases), 'cache_hit': st.hit, 'tree': st.tree},
                         nontrivial_rule='distinct syntactic classes',
                         assumptions=['rustc accept/reject of a witness is the observation', 'one witness per top-level syntax class is taken as covering the class'])
