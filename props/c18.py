"""C18 - behaviour depends only on the discriminant-to-name map, not on declaration order or repr (DESIGN.md 5).
  permutation : families of declarations of one value set in several orders - the derive's expansion (every item
                except the enum itself) must be token-identical across the family; identical code = identical behaviour
  repr        : families over every repr that can hold the value set - expansions token-identical after replacing the
                repr, its unsigned companion and literal suffixes by placeholders (usize / isize members: identical to
                the u64 / i64 member rewritten to the pointer-sized names); and every member
                passes all item rules (which is what makes the width-parametric arithmetic safe)
  width table : src/parser/mod.rs maps each repr to the unsigned type of the same width (read with syn)"""
import json, os, re
from lib import runner
from rules import gen as G
from rules.ctx import Ctx
from props import c02, c08

PROP = 'C18'
FAMILY_FLOOR = 20
INTS = ['u8', 'i8', 'u16', 'i16', 'u32', 'i32', 'u64', 'i64', 'u128', 'i128', 'usize', 'isize']

def check_instance(inst, F, ctx, extra):
    ctx.nontrivial.add((inst.rec.get('family'), inst.rec.get('member')))
    c02.check_instance(inst, F, ctx, None)
    c08.check_instance(inst, F, ctx, None)

def normalise_repr(tok, r, strict):
    u = 'u' + r[1:]
    if strict:
        a, b = '$R', '$U'
    else:
        a = b = '$T'
    # literal suffixes first (a literal token like 5i8 / 0u8)
    tok = re.sub(r'(?<=[0-9])%s\b' % r, a, tok)
    tok = re.sub(r'\b%s\b' % r, a, tok)
    if u != r:
        tok = re.sub(r'(?<=[0-9])%s\b' % u, b, tok)
        tok = re.sub(r'\b%s\b' % u, b, tok)
    return tok

def first_diff(a, b):
    for i, (x, y) in enumerate(zip(a, b)):
        if x != y:
            j = next((k for k in range(min(len(x), len(y))) if x[k] != y[k]), min(len(x), len(y)))
            return 'item %d differs at char %d: ...%s... vs ...%s...' % (i, j, x[max(0, j - 60):j + 60], y[max(0, j - 60):j + 60])
    if len(a) != len(b):
        return 'different number of derived items (%d vs %d)' % (len(a), len(b))
    return None

def main(tier, seed, t0):
    ctx = Ctx(PROP)
    est, ex = runner.stage_expand(tier, seed)
    for e in ex['errors']:
        ctx.violation('witness-rejected', None, e['crate'], 'a family crate does not expand: %s' % e['stderr'][-400:], key='C18/witness-rejected', kind='witness-rejected')
    fams = {}
    for x in ex['instances']:
        fams.setdefault((x['kind'], x['family']), []).append(x)
    n_f = 0
    for (kind, fid), ms in sorted(fams.items()):
        if kind not in ('perm', 'reprfam'):
            continue          # split families belong to C10, non-interference families to C09
        items = {}
        for m in ms:
            its = ex['mods'].get(m['id'])
            if its is None:
                continue
            items[m['id']] = [i['tokens'] for i in its if i['kind'] == 'item']
        if len(items) < 2:
            continue
        n_f += 1
        ref_m = ms[0]
        def report(rule, m, what):
            ctx.violation(rule, None, '%s/%s' % (kind, fid), 'family %s (%s, %s, values %s..): member %s vs %s: %s' % (
                fid, kind, ref_m['decl']['label'], [v['value'] for v in sorted(ref_m['decl']['variants'], key=lambda v: v['value'])][:6], m['member'], ref_m['member'], what),
                key='C18/%s/%s' % (rule, ref_m['decl']['label']), construct='src/parser/values.rs::parse_values (sort), src/parser/mod.rs::Derive::parse' if kind == 'perm' else 'src/parser/mod.rs (repr table) + templates using #repr / #repr_unsigned')
        if kind == 'perm':
            ref = items.get(ref_m['id'])
            for m in ms[1:]:
                if m['id'] not in items or ref is None:
                    continue
                d = first_diff(ref, items[m['id']])
                if d:
                    report('permutation-identity', m, d); break
            else:
                ctx.ok(kind + '-identity', n=len(ms) - 1)
        else:
            ok = True
            # pointer-sized members: `usize` is also the index type of the derived code, so instead of placeholders the
            # 64-bit member of the same signedness is rewritten to the pointer-sized names and compared literally
            for m in ms:
                r = m['decl']['repr']
                if not r.endswith('size') or m['id'] not in items:
                    continue
                twin = next((x for x in ms if x['decl']['repr'] == r[0] + '64' and x['id'] in items), None)
                if twin is None:
                    continue
                want = [re.sub(r'(?<=[0-9])i64\b|\bi64\b', 'isize', re.sub(r'(?<=[0-9])u64\b|\bu64\b', 'usize', t)) for t in items[twin['id']]]
                d = first_diff(want, items[m['id']])
                if d:
                    ref_m = twin
                    report('repr-identity', m, d); ok = False; break
            for strict in (True, False):
                if not ok:
                    break
                groups = {}
                for m in ms:
                    if m['id'] not in items or m['decl']['repr'].endswith('size'):
                        continue
                    g = (m['decl']['repr'][0] if strict else 'all')
                    groups.setdefault(g, []).append(m)
                for g, gm in groups.items():
                    ref = [normalise_repr(t, gm[0]['decl']['repr'], strict) for t in items[gm[0]['id']]]
                    for m in gm[1:]:
                        cur = [normalise_repr(t, m['decl']['repr'], strict) for t in items[m['id']]]
                        d = first_diff(ref, cur)
                        if d:
                            ref_m = gm[0]
                            report('repr-identity', m, d); ok = False; break
                    if not ok:
                        break
                if not ok:
                    break
            if ok:
                ctx.ok('repr-identity', n=len(ms) - 1)
    if n_f < FAMILY_FLOOR:
        ctx.error('only %d families compared, floor is %d' % (n_f, FAMILY_FLOOR))
    # ---- width table (generator rule)
    gst, gd = G.stage_gen()
    g = G.load(gd)
    table = None
    for f in g['files']:
        if f['file'] == 'parser/mod.rs':
            for fn in f['fns']:
                for m in fn['match_str_arms']:
                    pats = [p for a in m['arms'] for p in a['pats']]
                    if set(pats) >= {'u8', 'i8', 'u64'}:
                        table = m
    if table is None:
        ctx.error('repr table not found in src/parser/mod.rs')
    else:
        seen = set()
        for a in table['arms']:
            lits = re.findall(r'"([a-z0-9]+)"', a['body'])
            comp = lits[0] if lits else None
            for p in a['pats']:
                seen.add(p)
                want = 'u' + p[1:]
                if comp != want:
                    ctx.violation('width-table', None, 'repr ' + p, 'src/parser/mod.rs maps repr %s to the unsigned companion %s, required %s (same width): index casts through a narrower type truncate, through a wider one sign-extend' % (p, comp, want),
                                  key='C18/width-table/%s' % p, construct='src/parser/mod.rs::Derive::parse (repr match)')
                else:
                    ctx.ok('width-table')
        if seen != set(INTS):
            ctx.violation('width-table', None, 'repr list', 'the repr whitelist is %s, documented: %s' % (sorted(seen), sorted(INTS)), key='C18/width-table/list', construct='src/parser/mod.rs::Derive::parse (repr match)')
    # ---- all item rules on every family member
    st, d = runner.stage_inst(tier, seed)
    ictx, n = runner.run_instances('props.c18', d, select=lambda r: r.get('kind') in ('perm', 'reprfam', 'reprauto'))
    ctx.merge(ictx)
    ctx.programs |= {x['id'] for x in ex['instances']}
    fam0 = sorted(fams.items())[0]
    ctx.sample({'family': fam0[0], 'members': [m['member'] for m in fam0[1]], 'compared': 'token streams of every derived item'})
    return runner.finish(PROP, tier, seed, 'translation_validation', ctx, t0,
                         coverage_extra={'families': n_f, 'family_members': len(ex['instances']), 'cache_hit': [est.hit, st.hit], 'tree': st.tree},
                         nontrivial_rule='distinct (family, member) pairs',
                         assumptions=['token-identical derived items behave identically (the enum item itself is the only difference and the derived code refers to variants by name)',
                                      'usize / isize members are compared with the u64 / i64 member of the family after renaming (their name coincides with the index type usize, so placeholders would hide index casts)'])
