"""C02 - no undefined behaviour: every value produced is a declared variant (DESIGN.md 5).

Obligations are enumerated from MIR (not from source text): every transmute, every call of an `unsafe fn`
(unwrap_unchecked, assume_init; anything else is itself a violation), in every body the derive generated.
An obligation is discharged when the body it sits in is covered by an item rule that passed - each of those rules
establishes the value of every returned enum as a declared variant for all inputs (C01 accept set, C03 lookup,
C04 index->discriminant map, C05 step function, C06/C07 constructors) - and the unsafe value flows into the result
the rule examined."""
import re
from lib import runner
from rules import tables, shapes as S
from rules.items import Items, GEN_FILE
from rules.shapes import View
from rules.mir import callee_key, show
from rules.r_asstr import check_as_str, check_delegation
from rules.r_fromstr import check_from_str
from rules.r_next import check_step
from rules.r_range import check_range
from props.c01 import check_try_from
from props.c06 import check_iter, struct_name

PROP = 'C02'
UNSAFE_OK = {S.UNWRAP_UNCHECKED, S.MU_ASSUME}
# `unreachable_unchecked()` has the proof rule "no input reaches it": the rules built on the scanner (try_from, as_str, next, next_back)
# compute the input region of every path and report any non-returning path whose region is not empty, so in a body that such a rule
# accepted the call sits on a path no declared input takes.  Other bodies have no such argument: there it stays without a proof rule.
UNREACHABLE_UNCHECKED = 'core::hint::unreachable_unchecked'

def subterm(t, x):
    if t == x:
        return True
    if isinstance(t, tuple):
        return any(subterm(y, x) for y in t if isinstance(y, tuple))
    return False

def enumerate_obligations(inst, I):
    """[(body path, kind, site, term)] for every unsafe operation in every derived body of the instance"""
    out = []
    for path, b in inst.bodies.items():
        if b['kind'] not in ('Fn', 'AssocFn', 'Closure') or not b['from_expansion']:
            continue
        if '{impl#0}' in path or path.endswith('::clone'):
            pass
        body = I.body(path)
        for bi in sorted(body.reach):
            blk = body.blocks[bi]
            for si, st in enumerate(blk['st']):
                if st['s'] == 'assign' and st['rv']['r'] == 'cast' and st['rv']['kind'] == 'Transmute':
                    out.append((path, 'transmute', (bi, si), body.rvalue(st['rv'], (bi, si))))
                if st['s'] == 'assign' and st['rv']['r'] == 'rawptr':
                    out.append((path, 'rawptr', (bi, si), None))
            t = blk['term']
            if t.get('t') == 'call' and 'callee' in t:
                c = inst.crate.C(t['callee'])
                if c.get('unsafe'):
                    out.append((path, 'unsafe-call:' + (callee_key(inst.crate, t['callee']) or '?'), (bi, 'T'), body.call_term(t, bi)))
    return out

def check_instance(inst, F, ctx, extra, collect=None):
    I = Items(inst)
    V = View(inst, I, F)
    covered = {}       # body path -> True/False (rule verdict)
    scanned = set()    # bodies decided by a scanner-based rule (every path has an input region)
    def mark(path, ok):
        covered[path] = bool(ok) and covered.get(path, True)
    # try_from / TryFrom
    it = I.require_fn(ctx, 'try_from')
    if it is not None:
        mark(it['path'], check_try_from(inst, V, ctx, I.body(it['path']), 'try_from', 'Some') is not None); scanned.add(it['path'])
    if 'TryFrom' in inst.feats:
        for im, p in I.trait_fn('core::convert::TryFrom', 'try_from'):
            mark(p, check_try_from(inst, V, ctx, I.body(p), 'TryFrom', 'Ok') is not None); scanned.add(p)
    # as_str and the functions the delegating traits call
    checked = {}
    it = I.require_fn(ctx, 'as_str')
    if it is not None:
        checked[it['path']] = check_as_str(inst, V, ctx, I.body(it['path']), 'as_str'); scanned.add(it['path'])
    for f, tr in (('Debug', 'core::fmt::Debug'), ('Display', 'core::fmt::Display')):
        if f in inst.feats:
            for im, p in I.trait_fn(tr, 'fmt'):
                check_delegation(inst, V, ctx, p, f, checked)
    if 'IntoStr' in inst.feats:
        for im, p in I.trait_fn('core::convert::From', 'from', lambda t, im: t['k'] == 'ref'):
            check_delegation(inst, V, ctx, p, 'IntoStr', checked)
    for p, ok in checked.items():
        mark(p, ok); scanned.add(p)          # every entry is an as_str body decided by check_as_str (requested or helper)
    # from_str / FromStr
    it = I.require_fn(ctx, 'from_str')
    if it is not None:
        mark(it['path'], check_from_str(inst, V, ctx, I.body(it['path']), 'from_str', 'Some'))
    if 'FromStr' in inst.feats:
        for im, p in I.trait_fn('core::str::traits::FromStr', 'from_str'):
            mark(p, check_from_str(inst, V, ctx, I.body(p), 'FromStr', 'Ok'))
    # next / next_back (requested, or helpers reached from the cursor iterator)
    steps = {}
    for feature, direction in (('next', 'fwd'), ('next_back', 'bwd')):
        it = I.require_fn(ctx, feature)
        if it is not None:
            steps[(it['path'], direction)] = bool(check_step(inst, V, ctx, I.body(it['path']), direction, feature, feature))
    # iter / range
    if 'iter' in inst.feats:
        r = check_iter(inst, V, ctx, steps)
        it = I.assoc_fn('iter')
        if it is not None:
            mark(it['path'], r is not None)
        if 'range' in inst.feats:
            rt = I.assoc_fn('range')
            if rt is not None:
                ok = False
                if r is not None:
                    ok = check_range(inst, V, ctx, I.body(rt['path']), inst.mod + '::' + struct_name(inst, 'iter'), r[0], r[1])
                mark(rt['path'], ok)
    for (p, d), ok in steps.items():
        mark(p, ok); scanned.add(p)
    # ---- obligations
    obs = enumerate_obligations(inst, I)
    if obs:
        ctx.nontrivial.add(tuple(inst.rec['classes'][:5]) + tuple(sorted({o[1] for o in obs})))
    for path, kind, site, term in obs:
        owner = re.sub(r'(::\{closure#\d+\})+$', '', path)     # a closure inside a derived body belongs to that body
        if kind == 'unsafe-call:' + UNREACHABLE_UNCHECKED and path in scanned and covered.get(path):
            ctx.obligation(True)
            ctx.ok('obligation:unreachable_unchecked', inst)
            continue
        if kind == 'rawptr' or (kind.startswith('unsafe-call:') and kind.split(':', 1)[1] not in UNSAFE_OK):
            ctx.obligation(False)
            ctx.violation('unsafe-whitelist', inst, owner.split('::')[-1], 'derived code performs an unsafe operation the rule set has no proof rule for: %s at %s bb%s' % (kind, path.split('::', 2)[-1], site[0]),
                          key='C02/unsafe-whitelist/%s' % kind, kind='undischarged', construct=GEN_FILE.get(owner.split('::')[-1]))
            continue
        if owner not in covered:
            ctx.obligation(False)
            ctx.violation('uncovered', inst, owner.split('::')[-1], '%s in %s, a derived body no item rule covers' % (kind, path.split('::', 2)[-1]), key='C02/uncovered/%s' % kind.split(':')[0], kind='undischarged')
            continue
        if not covered[owner]:
            ctx.obligation(False)        # the item rule already reported why
            continue
        # the unsafe value must be part of what the rule examined: the returned value of its body
        body = I.body(path)
        flows = any(subterm(t, term) for _, t in body.ret_alternatives())
        if not flows and not kind.startswith('transmute'):
            # an unchecked unwrap may also feed only branch conditions; those are examined by the path analysis of the rule
            for bi in body.reach:
                tm = body.blocks[bi]['term']
                if tm.get('t') == 'switch' and subterm(body.operand(tm['discr'], (bi, 'T')), term):
                    flows = True; break
        if not flows:
            ctx.obligation(False)
            ctx.violation('dead-unsafe', inst, owner.split('::')[-1], '%s = %s in %s does not flow into the returned value, so no rule examined its precondition' % (kind, show(term), path.split('::', 2)[-1]),
                          key='C02/dead-unsafe/%s' % kind.split(':')[0], kind='undischarged')
            continue
        ctx.obligation(True)
        ctx.ok('obligation:' + kind.split('::')[-1], inst)
    if collect is not None:
        collect.update(covered)
    tables.check_tables(inst, F, ctx, ({'T3'} if 'T3' in V.used else set()) | ({'T4', 'T4-offset'} if 'T4' in V.used else set()) | ({'T2'} if 'T2' in V.used else set()))
    if obs and len(ctx.samples) < 5 and not inst.gapless:
        ctx.sample({'instance': inst.describe()[:260], 'obligations': ['%s @ %s bb%s' % (k, p.split('::', 2)[-1], s[0]) for p, k, s, t in obs[:12]]})

def main(tier, seed, t0):
    st, d = runner.stage_inst(tier, seed)
    ctx, n = runner.run_instances('props.c02', d)
    return runner.finish(PROP, tier, seed, 'translation_validation', ctx, t0,
                         coverage_extra={'instances_in_corpus': n, 'cache_hit': st.hit, 'tree': st.tree},
                         assumptions=['an obligation is discharged by the item rule that decides the value of the body it sits in (rules/*.py); core callees are interpreted through the summary table',
                                      'histories add nothing beyond inputs: the iterator structs hold Option<E> / core iterators, valid by type; the only unsafe code reached through them is next/next_back and the range-mode closure'])
