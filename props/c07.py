"""C07 - range(a, b) is iter() restricted to a <= v <= b, empty when a > b, in every mode (DESIGN.md 5)."""
from lib import runner
from rules import tables
from rules.items import Items, GEN_FILE
from rules.shapes import View
from rules import r_iter as R
from rules.r_range import check_range
from props.c06 import check_iter, struct_name

PROP = 'C07'

def check_instance(inst, F, ctx, extra):
    if 'range' not in inst.feats:
        return
    I = Items(inst)
    V = View(inst, I, F)
    it = I.assoc_fn('range')
    if it is None:
        ctx.violation('exists', inst, 'range', 'range function not found', construct=GEN_FILE['range']); return
    ctx.nontrivial.add(tuple(inst.rec['classes'][:5]) + (inst.feats.get('iter', {}).get('mode', 'auto'),))
    r = check_iter(inst, V, ctx, {})          # the C06 rules on the returned struct
    if r is None:
        return
    spath = inst.mod + '::' + struct_name(inst, 'iter')
    ok = check_range(inst, V, ctx, I.body(it['path']), spath, r[0], r[1])
    tables.check_tables(inst, F, ctx, ({'T3'} if 'T3' in V.used else set()) | ({'T4', 'T4-offset'} if 'T4' in V.used else set()))
    if ok and len(ctx.samples) < 5 and not inst.gapless:
        ctx.sample({'instance': inst.describe()[:300], 'decided': 'for all %d x %d ordered pairs (a, b): index terms equal positions on the whole declared set; emptiness test start_idx > end_idx; no reachable panic edge' % (len(inst.S), len(inst.S))})

def main(tier, seed, t0):
    st, d = runner.stage_inst(tier, seed)
    ctx, n = runner.run_instances('props.c07', d)
    return runner.finish(PROP, tier, seed, 'translation_validation', ctx, t0,
                         coverage_extra={'instances_in_corpus': n, 'cache_hit': st.hit, 'tree': st.tree},
                         assumptions=['core iterator algebra and Index<RangeInclusive<usize>>/Index<RangeTo<usize>> for slices are trusted',
                                      'index terms are compared with the position function as piecewise-affine functions over the whole declared set (rules/r_range.py)'])
