"""E3 (DESIGN.md 3.3): the declaration / configuration corpus.

Everything here is *specification side*: it writes enum declarations and
enum_tools configurations and records, for each, what the declaration means
(value of every variant, its name after rename).  Nothing here looks at /repo.
The classes are taken from the quantifier texts of the properties.
"""
import random

REPRS = ['u8', 'i8', 'u16', 'i16', 'u32', 'i32', 'u64', 'i64', 'u128', 'i128', 'usize', 'isize']
I64_MIN, I64_MAX = -(1 << 63), (1 << 63) - 1

def repr_bits(r, pointer_bits=64):
    return pointer_bits if r.endswith('size') else int(r[1:])

def repr_signed(r):
    return r[0] == 'i'

def repr_bounds(r):
    b = repr_bits(r)
    if repr_signed(r):
        return -(1 << (b - 1)), (1 << (b - 1)) - 1
    return 0, (1 << b) - 1

def dom_bounds(r):
    """bounds of the supported domain for this repr: repr range clipped to i64"""
    lo, hi = repr_bounds(r)
    return max(lo, I64_MIN), min(hi, I64_MAX)

def ident(i):
    if i < 26:
        return chr(ord('A') + i)
    return 'V%d' % i

def runs_of(values):
    vs = sorted(values)
    out = []
    b = last = vs[0]
    for v in vs[1:]:
        if v != last + 1:
            out.append((b, last)); b = v
        last = v
    out.append((b, last))
    return out

# ---------------------------------------------------------------- shapes

def shapes(r, tier):
    """value sets (ascending lists) with class labels, for repr r"""
    lo, hi = dom_bounds(r)
    s = repr_signed(r)
    bits = repr_bits(r)
    out = []
    def add(label, vals):
        vals = sorted(set(vals))
        assert all(lo <= v <= hi for v in vals), (r, label)
        out.append((label, vals))
    add('gapless0', range(0, 4))
    add('gapless_pos', range(5, 8))
    add('single', [7])
    add('single_lo', [lo])
    add('single_hi', [hi])
    add('gapless_at_min', range(lo, lo + 3))
    add('gapless_at_max', range(hi - 2, hi + 1))
    add('holes2', [0, 1, 9])
    add('holes3', [0, 1, 5, 6, 7, 20])
    add('holes_min_max', [lo, lo + 1, 3, hi - 1, hi])
    add('holes_singletons', range(0, 42, 2))
    add('holes_mixed', [1, 2, 3, 4, 10, 20, 21, 30, 31, 32, 33, 34, 35])
    add('holes_single_first_last', [0, 5, 6, 7, 20])
    add('two_variants', [3, 4])
    # flag-like enums: every discriminant a power of two, contiguous bits / a skipped bit / with zero / only the extremes
    add('flags_contiguous', [1, 2, 4, 8, 16, 32, 64])
    add('flags_skip_bit', [1, 2, 8, 32, 64])
    add('flags_with_zero', [0, 1, 2, 4, 16])
    add('flags_extremes', [1, 1 << (min(bits, 63) - 2)])
    add('two_variants_apart', [0, 64])
    if s:
        add('gapless_neg', range(-3, 3))
        add('gapless_allneg', range(-7, -3))
        add('holes_neg_later', [-10, -9, -5, -4, 3])
        add('holes_allneg', [-30, -29, -20, -11, -10, -9])
        add('holes_cross0', [-2, -1, 0, 1, 5, 6])
    if bits == 8:
        add('gapless_whole_type', range(lo, hi + 1))
        # more than 127 variants before a later run: the offset literal overflows i8
        add('holes_big_prefix', list(range(lo, lo + 130)) + [lo + 135, lo + 136, lo + 140])
        add('holes_whole_but_one', [v for v in range(lo, hi + 1) if v != lo + 100])
        add('gapless_128', range(0, 128) if not s else range(-128, 0))
    else:
        add('gapless_257', range(0, 257))
        # variant counts equal to the size of a narrower type: nothing about the repr follows from the count
        add('gapless_256', range(0, 256))
        add('gapless_256_off', range(100, 356))
        add('gapless_255', range(1, 256))
        add('gapless_128', range(0, 128))
        add('holes_256_variants', list(range(0, 255)) + [300])
        add('holes_300', list(range(0, 300)) + list(range(400, 406)))
        b = -150 if s else 1000
        add('gapless_300_off', range(b, b + 300))
    # spans that are congruent to n-1 modulo a narrower width (a gapless test done in a narrow type would be fooled)
    if bits >= 16:
        add('holes_span_mod_2_8', [0, 1, 258])
    if bits >= 32:
        add('holes_span_mod_2_16', [0, 1, 65538])
        add('holes_span_mod_2_16b', [10, 11, 12, 65549])
    if bits >= 64:
        add('holes_span_mod_2_32', [0, 1, (1 << 32) + 2])
    # limits of every narrower integer width (where code that guesses the width, or casts through a narrower type, breaks)
    for w in (8, 16, 32, 64):
        if w >= bits:
            continue
        um, sm = (1 << w) - 1, 1 << (w - 1)
        cands = [('gapless_end_u%dmax' % w, range(um - 2, um + 1)), ('gapless_cross_u%dmax' % w, range(um - 1, um + 3)),
                 ('gapless_end_i%dmax' % w, range(sm - 3, sm)), ('holes_at_u%d_limits' % w, [0, 1, sm - 1, sm, um, um + 1, um + 5])]
        if s:
            cands += [('gapless_start_i%dmin' % w, range(-sm, -sm + 3)), ('gapless_cross_i%dmin' % w, range(-sm - 2, -sm + 2)),
                      ('holes_at_i%d_limits' % w, [-sm - 1, -sm, -1, 0, sm - 1, sm, sm + 3])]
        for lab, vs in cands:
            vs = list(vs)
            if all(lo <= v <= hi for v in vs):
                add(lab, vs)
    if bits >= 16:
        add('holes_257_runs', range(0, 514, 2))          # more runs than a byte can count
    if bits >= 64:
        add('holes_i64_limits', [I64_MIN if s else 0, -1 if s else 1, 0 if s else 2, I64_MAX - 1, I64_MAX])
    if tier == 'thorough':
        if bits >= 16:
            add('gapless_1000', range(-500 if s else 0, 500 if s else 1000))
            add('holes_1000', [v * 3 for v in range(0, 400)] + list(range(2000, 2600)))
        add('holes_pairs', [v for v in range(0, 60) if v % 3 != 2])
    return out

# ---------------------------------------------------------------- spelling

def spell(v, style, r, k):
    """literal text for value v. style: dec | fancy"""
    if style == 'dec':
        return str(v)
    a = abs(v)
    forms = [str(a), hex(a), oct(a), bin(a), _underscore(a), '%d%s' % (a, r), '0x%X_%s' % (a, r) if False else '%s%s' % (hex(a), r)]
    f = forms[k % len(forms)]
    return ('-' if v < 0 else '') + f

def _underscore(a):
    s = str(a)
    if len(s) <= 1:
        return s + '_'
    return s[0] + '_' + s[1:]

HOSTILE_NAMES = ['', '"', '\\', '{}', '{0}', 'grün', 'a b', "it's", '\n', 'µm', 'A*', 'r#type', '\\n', '}}{{', '\U0001F600']

def make_decl(r, label, values, order, spelling, naming, rnd, vis='pub'):
    """returns a decl dict. order: asc|desc|shuf|runshuf ; spelling: explicit|implicit|mixed|fancy ;
    naming: default|hostile|dup|swap"""
    vals = list(values)
    n = len(vals)
    names = {v: ident(i) for i, v in enumerate(vals)}          # ident by rank
    decl_order = list(vals)
    lits = {}
    if order == 'asc':
        if spelling == 'implicit':
            assert vals == list(range(0, n))
            lits = {v: None for v in vals}
        elif spelling == 'mixed':
            # explicit at run starts, implicit inside runs
            for (b, e) in runs_of(vals):
                for v in range(b, e + 1):
                    lits[v] = str(v) if v == b else None
            if vals[0] == 0:
                lits[0] = None
        elif spelling == 'fancy':
            lits = {v: spell(v, 'fancy', r, i) for i, v in enumerate(vals)}
        else:
            lits = {v: str(v) for v in vals}
    elif order == 'desc':
        decl_order = vals[::-1]
        lits = {v: (spell(v, 'fancy', r, i) if spelling == 'fancy' else str(v)) for i, v in enumerate(vals)}
    elif order == 'shuf':
        rnd.shuffle(decl_order)
        lits = {v: (spell(v, 'fancy', r, i) if spelling == 'fancy' else str(v)) for i, v in enumerate(vals)}
    elif order == 'runshuf':
        # runs declared in shuffled order; first of a run explicit, rest implicit
        rs = runs_of(vals)
        # split long runs so that "implicit after explicit" also appears inside gapless enums
        pieces = []
        for (b, e) in rs:
            if e - b >= 3:
                m = (b + e) // 2
                pieces += [(b, m), (m + 1, e)]
            else:
                pieces.append((b, e))
        rnd.shuffle(pieces)
        decl_order = []
        for (b, e) in pieces:
            for v in range(b, e + 1):
                decl_order.append(v)
                lits[v] = str(v) if v == b else None
    else:
        raise ValueError(order)
    renames = {}
    if naming == 'hostile':
        for i, v in enumerate(vals):
            if i % 2 == 0 or n <= 3:
                renames[v] = HOSTILE_NAMES[(i // 2 + len(label)) % len(HOSTILE_NAMES)]
        # keep names pairwise distinct in this class
        seen = set()
        for v in vals:
            nm = renames.get(v, names[v])
            while nm in seen:
                nm = nm + '\''
                renames[v] = nm
            seen.add(nm)
    elif naming == 'prefix':
        # names that are prefixes of one another, of equal length, and one very long name
        base = ['a', 'ab', 'abc', 'abcd', 'abd', 'ab ', ' ab', 'AB', 'aB', 'x' * 300]
        for i, v in enumerate(vals):
            renames[v] = base[i % len(base)] + ('' if i < len(base) else '#%d' % i)
    elif naming == 'idents':
        # identifiers that are legal but unusual: leading underscore, lower case, non-ASCII, digits
        odd = ['_u', 'lower_case', 'r#type', 'Über', 'X9', 'a', 'r#match', 'Ω', 'snake_case_name', 'CamelCaseName', '__dunder', 'Z']
        seen = set()
        for i, v in enumerate(vals):
            nm = odd[i % len(odd)] + ('' if i < len(odd) else str(i))
            names[v] = nm
    elif naming == 'featnames':
        # identifiers equal to the default names of derived items; MAX / MIN deliberately not at the extremes
        fn = ['next', 'MAX', 'iter', 'MIN', 'as_str', 'try_from', 'into', 'names', 'range', 'from_str', 'next_back']
        for i, v in enumerate(vals):
            names[v] = fn[i % len(fn)] + ('' if i < len(fn) else str(i))
    elif naming == 'dup' and n >= 3:
        renames[vals[0]] = 'same'
        renames[vals[n // 2]] = 'same'
        if n >= 5:
            renames[vals[-1]] = 'same'
    elif naming == 'swap' and n >= 2:
        # a variant renamed to another variant's identifier (that one renamed away)
        renames[vals[0]] = names[vals[1]]
        renames[vals[1]] = 'was_' + names[vals[1]]
    variants = []
    for k, v in enumerate(decl_order):
        x = {'ident': names[v], 'lit': lits[v], 'value': v, 'rename': renames.get(v)}
        if naming in ('hostile', 'swap') and n <= 50:
            # foreign attributes and doc comments before / after / on both sides of the rename attribute
            if k % 3 == 0:
                x['attrs'] = ['/// doc before', '#[allow(dead_code)]']
            elif k % 3 == 1:
                x['attrs_after'] = ['#[doc = "after"]', '#[allow(unused, dead_code)]']
            else:
                x['attrs'] = ['#[doc(alias = "q")]']; x['attrs_after'] = ['/** block doc after */']
        variants.append(x)
    # sanity: implicit values follow the compiler's rule
    last = -1
    for x in variants:
        if x['lit'] is None:
            assert x['value'] == last + 1, (label, order, spelling, x)
        last = x['value']
    return {'repr': r, 'vis': vis, 'variants': variants, 'label': label, 'order': order, 'spelling': spelling,
            'naming': naming, 'gapless': len(runs_of(vals)) == 1, 'n': n}

def decl_name(decl, v):
    return v['rename'] if v['rename'] is not None else v.get('src_ident', v['ident'])

def sorted_variants(decl):
    return sorted(decl['variants'], key=lambda x: x['value'])

# ---------------------------------------------------------------- configurations

ALL_FEATURES = ['as_str', 'from_str', 'into', 'MAX', 'MIN', 'next', 'next_back', 'try_from',
                'Debug', 'Display', 'FromStr', 'Into', 'IntoStr', 'TryFrom', 'iter', 'names', 'range']
MODED = {'as_str': ['auto', 'match', 'table'], 'from_str': ['auto', 'match', 'table'],
         'FromStr': ['auto', 'match', 'table'], 'iter': ['auto', 'range', 'next_and_back', 'table', 'table_inline']}
HAS_NAME_VIS = ['as_str', 'from_str', 'into', 'MAX', 'MIN', 'next', 'next_back', 'try_from', 'iter', 'names', 'range']
HAS_STRUCT_NAME = ['iter', 'names']

def config(features, modes=None, params=None, split=1):
    """features: list of feature names; modes: {feature: mode or None (param omitted)};
    params: {feature: {name:.., vis:.., struct_name:..}}; split: number of attributes"""
    modes = modes or {}
    params = params or {}
    feats = []
    for f in features:
        p = dict(params.get(f, {}))
        m = modes.get(f)
        if m is not None:
            p['mode'] = m
        feats.append((f, p))
    return {'features': feats, 'split': split}

def config_legal(cfg, decl):
    fs = dict(cfg['features'])
    if 'range' in fs:
        if 'iter' not in fs:
            return False
        if fs['iter'].get('mode') == 'table_inline':
            return False
    if 'iter' in fs and fs['iter'].get('mode') == 'range' and not decl['gapless']:
        return False
    return True

def full_config(as_str, from_str, FromStr, iter_mode, with_range=True, split=3, drop=()):
    feats = [f for f in ALL_FEATURES if f not in drop]
    if not with_range or iter_mode == 'table_inline':
        feats = [f for f in feats if f != 'range']
    return config(feats, {'as_str': as_str, 'from_str': from_str, 'FromStr': FromStr, 'iter': iter_mode}, split=split)

def render_attr(cfg):
    feats = cfg['features']
    k = max(1, min(cfg.get('split', 1), len(feats)))
    groups = [feats[i::k] for i in range(k)]
    lines = []
    for g in groups:
        if not g:
            continue
        items = []
        for f, p in g:
            if p:
                ps = []
                for key, val in p.items():
                    if val is True:
                        ps.append(key)
                    else:
                        ps.append('%s = %s' % (key, rust_str(val)))
                items.append('%s(%s)' % (f, ', '.join(ps)))
            else:
                items.append(f)
        lines.append('#[enum_tools(%s)]' % ', '.join(items))
    return lines

def rust_str(s):
    out = ['"']
    for ch in s:
        if ch == '"': out.append('\\"')
        elif ch == '\\': out.append('\\\\')
        elif ch == '\n': out.append('\\n')
        elif ch == '\r': out.append('\\r')
        elif ch == '\t': out.append('\\t')
        elif ord(ch) < 0x20: out.append('\\u{%x}' % ord(ch))
        else: out.append(ch)
    out.append('"')
    return ''.join(out)

def render_enum(decl, cfg, name='E', derives='Clone, Copy, EnumTools', extra_attrs=(), sorted_attr=None):
    name = decl.get('enum_name', name)
    derives = decl.get('derives', derives)
    lines = ['#[derive(%s)]' % derives]
    lines += list(extra_attrs)
    lines += list(decl.get('enum_attrs', []))
    if sorted_attr:
        lines.append(sorted_attr)
    attr_lines = render_attr(cfg) if cfg is not None else []
    rp = (cfg or {}).get('repr_pos', 'last')
    rl = '#[repr(%s)]' % decl['repr']
    if rp == 'first':
        lines += [rl] + attr_lines
    elif rp == 'middle' and len(attr_lines) >= 2:
        lines += attr_lines[:1] + [rl] + attr_lines[1:]
    else:
        lines += attr_lines + [rl]
    vis = decl['vis']
    lines.append('%senum %s {' % (vis + ' ' if vis else '', name))
    for v in decl['variants']:
        for a in v.get('attrs', []):
            lines.append('    ' + a)
        if v['rename'] is not None:
            lines.append('    #[enum_tools(rename = %s)]' % rust_str(v['rename']))
        for a in v.get('attrs_after', []):
            lines.append('    ' + a)
        if v['lit'] is None:
            lines.append('    %s,' % v['ident'])
        else:
            lines.append('    %s = %s,' % (v['ident'], v['lit']))
    lines.append('}')
    return lines

HOSTILE = [
    # type + value namespace
    'pub struct Option;', 'pub struct Some;', 'pub struct None;', 'pub struct Result;', 'pub struct Ok;', 'pub struct Err;',
    'pub struct RangeInclusive;', 'pub struct MaybeUninit;', 'pub struct Formatter;', 'pub struct Map;', 'pub struct Copied;', 'pub struct Iter;', 'pub struct IntoIter;',
    # traits
    'pub trait Iterator {}', 'pub trait IntoIterator {}', 'pub trait DoubleEndedIterator {}', 'pub trait ExactSizeIterator {}', 'pub trait FusedIterator {}',
    'pub trait From {}', 'pub trait Into {}', 'pub trait TryFrom {}', 'pub trait FromStr {}', 'pub trait Copy {}', 'pub trait Clone {}', 'pub trait Debug {}',
    'pub trait Display {}', 'pub trait Sized {}', 'pub trait FnMut {}', 'pub trait PartialEq {}',
    # functions, modules
    'pub fn transmute() {}', 'pub fn drop() {}', 'pub mod core {}', 'pub mod std {}', 'pub mod alloc {}', 'pub mod mem {}', 'pub mod option {}', 'pub mod iter {}',
    # macros (textual scope: defined before the enum)
    'macro_rules! panic { ($($t:tt)*) => { compile_error!("hostile panic! was invoked by derived code") } }',
    'macro_rules! unreachable { ($($t:tt)*) => { compile_error!("hostile unreachable! was invoked by derived code") } }',
    'macro_rules! matches { ($($t:tt)*) => { compile_error!("hostile matches! was invoked by derived code") } }',
    'macro_rules! write { ($($t:tt)*) => { compile_error!("hostile write! was invoked by derived code") } }',
    'macro_rules! assert { ($($t:tt)*) => { compile_error!("hostile assert! was invoked by derived code") } }',
    'macro_rules! debug_assert { ($($t:tt)*) => { compile_error!("hostile debug_assert! was invoked by derived code") } }',
    'macro_rules! assert_eq { ($($t:tt)*) => { compile_error!("hostile assert_eq! was invoked by derived code") } }',
    'macro_rules! unimplemented { ($($t:tt)*) => { compile_error!("hostile unimplemented! was invoked by derived code") } }',
    'macro_rules! todo { ($($t:tt)*) => { compile_error!("hostile todo! was invoked by derived code") } }',
    'macro_rules! format_args { ($($t:tt)*) => { compile_error!("hostile format_args! was invoked by derived code") } }',
    'macro_rules! concat { ($($t:tt)*) => { compile_error!("hostile concat! was invoked by derived code") } }',
    'macro_rules! stringify { ($($t:tt)*) => { compile_error!("hostile stringify! was invoked by derived code") } }',
]

BODY_CONTEXTS = {
    'fn': (['pub fn inner() {'], ['}']),
    'block': (['pub fn inner() { {'], ['} }']),
    'const': (['const _: () = {'], ['};']),
    'implfn': (['pub struct Host;', 'impl Host { pub fn inner(&self) {'], ['} }']),
    'traitfn': (['pub trait Host { fn inner(&self) {'], ['} }']),
    'closure': (['pub fn inner() { let _c = || {'], ['}; }']),
}

def render_module(mod, decl, cfg, hostile=False, **kw):
    """one instance = one module.  A declaration with vis 'pub(in crate::MOD)' is nested one level deeper so that
    the path names an ancestor module.  hostile=True adds user items, modules and macros named like prelude / core
    items in front of the enum (C16)."""
    hdr = ['    #![no_implicit_prelude]', '    #![allow(dead_code, non_camel_case_types, unused_imports, unused_macros)]', '    use ::enum_tools::EnumTools;']
    if hostile:
        hdr += ['    ' + h for h in HOSTILE]
    cx = decl.get('context')
    if cx in BODY_CONTEXTS:
        # the enum is an item inside a function body / block / anonymous constant / method body
        open_, close_ = BODY_CONTEXTS[cx]
        body = ['pub mod %s {' % mod, '    #![allow(dead_code, non_camel_case_types, unused_imports, unused_macros)]'] + ['    ' + l for l in open_] + ['        use ::enum_tools::EnumTools;']
        body += ['        ' + l for l in render_enum(decl, cfg, **kw)]
        body += ['    ' + l for l in close_] + ['}']
        return body
    if cx == 'macro':
        # the whole item passes through a macro_rules! transcriber; the enum's name, visibility and repr arrive as fragments
        en = decl.get('enum_name', 'E')
        d2 = dict(decl); d2['enum_name'] = '$name'; d2['vis'] = '$v'; d2['repr'] = '$r'
        body = ['pub mod %s {' % mod] + hdr
        body += ['    macro_rules! mk { ($v:vis, $name:ident, $r:ident) => {'] + ['        ' + l for l in render_enum(d2, cfg, **kw)] + ['    } }']
        body += ['    mk!(%s, %s, %s);' % (decl['vis'], en, decl['repr']), '}']
        return body
    if cx == 'macro_tt':
        # the item is passed as raw token trees through a macro and a nested macro
        body = ['pub mod %s {' % mod] + hdr
        body += ['    macro_rules! pass { ($($t:tt)*) => { pass2!{ $($t)* } } }', '    macro_rules! pass2 { ($($t:tt)*) => { $($t)* } }', '    pass! {']
        body += ['        ' + l for l in render_enum(decl, cfg, **kw)] + ['    }', '}']
        return body
    if 'MOD' in (decl['vis'] or ''):
        d2 = dict(decl); d2['vis'] = decl['vis'].replace('MOD', mod)
        body = ['pub mod %s {' % mod, '    pub mod inner {'] + ['    ' + h for h in hdr]
        body += ['        ' + l for l in render_enum(d2, cfg, **kw)]
        body += ['    }', '}']
        return body
    body = ['pub mod %s {' % mod] + hdr
    body += ['    ' + l for l in render_enum(decl, cfg, **kw)]
    if decl.get('sibling'):
        # a second derive in the same module: generated items of the two must not collide
        body += ['    #[derive(Clone, Copy, EnumTools)]', '    #[enum_tools(%s)]' % decl['sibling'], '    #[repr(i16)]', '    pub enum F { P = -1, Q = 0, R = 7 }']
    body.append('}')
    return body
