"""Builds the instance list (declaration x configuration) for a tier and seed,
and writes the witness workspace.  See DESIGN.md 3.3."""
import itertools, json, os, random
from . import decls as D

I64 = (1 << 63) - 1

CORPUS_VERSION = 18

AS = ['match', 'table', None, 'auto']  # None = parameter omitted (auto); 'auto' = written explicitly
IT_G = ['range', 'next_and_back', 'table', 'table_inline', None, 'auto']
IT_H = ['next_and_back', 'table', 'table_inline', None, 'auto']

def mode_rotation(gapless):
    """a list of (as_str, from_str, FromStr, iter, with_range) covering every mode value of every
    moded feature, every pair (as_str, iter) and auto under steering co-features"""
    its = IT_G if gapless else IT_H
    combos = []
    for i, (a, f, t) in enumerate(itertools.product(AS, AS, AS)):
        combos.append((a, f, t, its[i % len(its)], True))
    return combos

def build(tier, seed):
    rnd = random.Random(seed)
    insts = []
    def add(decl, cfg, kind='full', classes=()):
        if not D.config_legal(cfg, decl):
            return
        insts.append({'decl': decl, 'cfg': cfg, 'kind': kind,
                      'classes': [decl['repr'], decl['label'], decl['order'], decl['spelling'], decl['naming'], kind] + list(classes)})
    k = 0
    for r in D.REPRS:
        for (label, vals) in D.shapes(r, tier):
            n = len(vals)
            gapless = len(D.runs_of(vals)) == 1
            rot = mode_rotation(gapless)
            # declaration variants of this value set
            variants = [('asc', 'explicit', 'default')]
            if vals == list(range(0, n)):
                variants.append(('asc', 'implicit', 'hostile'))
            variants.append(('asc', 'mixed', 'default'))
            if n <= 50:
                variants += [('shuf', 'explicit', 'hostile'), ('desc', 'fancy', 'dup'), ('runshuf', 'explicit', 'swap'), ('asc', 'fancy', 'default'), ('shuf', 'explicit', 'idents'), ('asc', 'explicit', 'prefix')]
            else:
                variants += [('desc', 'explicit', 'default')]
            light = label.startswith(('flags_', 'gapless_end_u', 'gapless_end_i', 'gapless_cross_', 'gapless_start_i', 'holes_at_', 'holes_span_mod', 'gapless_256', 'gapless_255', 'gapless_128', 'holes_256_variants'))
            if light:
                # boundary classes of narrower widths: many shapes, so fewer declaration variants each
                variants = [variants[(k + j) % len(variants)] for j in range(1 if tier == 'quick' else 2)]
            elif tier == 'quick':
                # quick: rotate declaration variants instead of taking all
                variants = [variants[(k + j) % len(variants)] for j in range(2 if n <= 50 else 1)]
            for (order, spelling, naming) in variants:
                d = D.make_decl(r, label, vals, order, spelling, naming, rnd,
                                vis=['pub', 'pub(crate)', '', 'pub(super)'][k % 4])
                ncfg = 2 if light else ((3 if n <= 50 else 2) if tier == 'quick' else (5 if n <= 50 else 2))
                for j in range(ncfg):
                    a, f, t, it, wr = rot[(k * 5 + j * 7) % len(rot)]
                    if n > 300 and it == 'table_inline':
                        it = 'table'
                    c = D.full_config(a, f, t, it, wr, split=1 + (k + j) % 3)
                    c['repr_pos'] = ['last', 'first', 'middle'][(k + j) % 3]
                    if (k + j) % 4 == 1:
                        c['features'] = c['features'][::-1]      # the order in which features are listed is free
                    add(d, c)
                    k += 1
    # the complete mode product on a few small declarations (C09 matrix)
    for r, label, vals in [('i8', 'holes_neg_later', [-10, -9, -5, -4, 3]), ('u8', 'gapless0', [0, 1, 2, 3]),
                           ('i64', 'holes3', [0, 1, 5, 6, 7, 20]), ('u16', 'gapless_pos', [5, 6, 7])]:
        gapless = len(D.runs_of(vals)) == 1
        d = D.make_decl(r, label, vals, 'shuf', 'explicit', 'hostile', rnd)
        its = IT_G if gapless else IT_H
        prod = list(itertools.product(AS, AS, AS, its))
        if tier == 'quick':
            prod = prod[::3]
        for (a, f, t, it) in prod:
            add(d, D.full_config(a, f, t, it, True, split=1), kind='matrix')
    # auto steering: single moded feature with / without co-features that steer auto
    steer_sets = [[], ['names'], ['Debug'], ['from_str'], ['FromStr'], ['from_str', 'FromStr'], ['range'], ['names', 'range']]
    for r, label, vals in [('u8', 'holes2', [0, 1, 9]), ('u64', 'holes2', [0, 1, 9]), ('u8', 'holes_singletons', list(range(0, 18, 2))),
                           ('i16', 'gapless_neg', [-3, -2, -1, 0, 1, 2])]:
        d = D.make_decl(r, label, vals, 'asc', 'explicit', 'default', rnd)
        for base in ['as_str', 'from_str', 'FromStr', 'iter']:
            for co in steer_sets:
                feats = [base] + [c for c in co if c != base]
                if 'range' in feats and 'iter' not in feats:
                    feats.append('iter')
                add(d, D.config(feats), kind='steer', classes=['+'.join(feats)])
    # single features and small sets (dependency closure witnesses, helper privacy)
    for r, label, vals in [('i8', 'holes_neg_later', [-10, -9, -5, -4, 3]), ('u32', 'gapless_pos', [5, 6, 7])]:
        for vis in ['pub', 'pub(crate)', '', 'pub(super)']:
            d = D.make_decl(r, label, vals, 'asc', 'explicit', 'default', rnd, vis=vis)
            for f in D.ALL_FEATURES:
                if f == 'range':
                    continue
                modes = D.MODED.get(f, [None])
                for m in modes:
                    mm = None if m in (None, 'auto') else m
                    add(d, D.config([f], {f: mm}), kind='single', classes=[f, str(mm)])
                    if f == 'iter' and m != 'table_inline':
                        add(d, D.config(['iter', 'range'], {'iter': mm}), kind='single', classes=['iter+range', str(mm)])
    # names swapped between features, mixed visibilities, and a second derive in the same module
    for r, label, vals in [('i8', 'holes_neg_later', [-10, -9, -5, -4, 3]), ('u16', 'gapless_pos', [5, 6, 7])]:
        d = D.make_decl(r, label, vals, 'shuf', 'explicit', 'hostile', rnd, vis='pub')
        gap = d['gapless']
        for sib in (None, 'as_str, from_str, into, MAX, MIN, next, next_back, try_from, Debug, Display, FromStr, Into, IntoStr, TryFrom, iter, names, range'):
            dd = dict(d)
            if sib:
                dd['sibling'] = sib
            params = {'next': {'name': 'next_back', 'vis': ''}, 'next_back': {'name': 'next', 'vis': 'pub'}, 'MIN': {'name': 'MAX'}, 'MAX': {'name': 'MIN', 'vis': 'pub(crate)'},
                      'as_str': {'name': 'into', 'vis': ''}, 'into': {'name': 'as_str'}, 'from_str': {'name': 'try_from'}, 'try_from': {'name': 'from_str', 'vis': 'pub(crate)'},
                      'iter': {'name': 'names', 'struct_name': 'ENames', 'vis': 'pub'}, 'names': {'name': 'iter', 'struct_name': 'EIter'}, 'range': {'name': 'range_of', 'vis': 'pub(crate)'}}
            for it in (['range', 'next_and_back', 'table'] if gap else ['next_and_back', 'table', None]):
                add(dd, D.config(D.ALL_FEATURES, {'iter': it, 'as_str': 'table', 'from_str': 'table'}, params, split=2), kind='swapnames', classes=['sibling=' + str(bool(sib)), 'iter=' + str(it)])
            add(dd, D.full_config('match', None, 'table', 'next_and_back', True, split=1), kind='sibling' if sib else 'full')
    # enums declared inside a function body (the derive output must be valid as block-level items)
    for r, label, vals in [('i8', 'holes_neg_later', [-10, -9, -5, -4, 3]), ('u64', 'gapless_pos', [5, 6, 7])]:
        d = D.make_decl(r, label, vals, 'shuf', 'explicit', 'hostile', rnd, vis='')
        d['context'] = 'fn'
        gap = d['gapless']
        for (a, f, t, it) in [('table', 'table', 'table', 'next_and_back'), ('match', 'match', 'match', 'table'), (None, None, None, None), ('table', 'match', 'table', 'range' if gap else 'table_inline')]:
            add(d, D.full_config(a, f, t, it, True, split=2), kind='fnlocal')
    # ... and inside a nested block, an anonymous constant, an inherent method, a trait's default method, a closure; and enums whose
    # item passes through macro_rules! transcribers (name / visibility / repr as fragments, or the whole item as token trees)
    for cx in ('block', 'const', 'implfn', 'traitfn', 'closure', 'macro', 'macro_tt'):
        for r, label, vals in [('i16', 'holes_neg_later', [-10, -9, -5, -4, 3]), ('u32', 'gapless_pos', [5, 6, 7])]:
            d = D.make_decl(r, label, vals, 'shuf', 'explicit', 'hostile', rnd, vis='' if cx in D.BODY_CONTEXTS else 'pub(crate)')
            d['context'] = cx
            gap = d['gapless']
            for (a, f, t, it) in [('table', 'table', 'table', 'next_and_back'), ('match', 'match', 'match', 'table'), (None, None, None, None), ('table', 'match', 'table', 'range' if gap else 'table_inline')]:
                add(d, D.full_config(a, f, t, it, True, split=2), kind='context', classes=['context=' + cx])
    # `sorted` configurations: the declaration order is constrained by name and/or value while the other stays free
    for r, label, vals in [('i16', 'holes_neg_later', [-10, -9, -5, -4, 3]), ('u8', 'gapless0', [0, 1, 2, 3]), ('i64', 'holes_mixed', [1, 2, 3, 4, 10, 20, 21, 30, 31, 32, 33, 34, 35]),
                           ('i8', 'gapless_neg', [-3, -2, -1, 0, 1, 2]), ('u32', 'holes_singletons', list(range(0, 20, 2)))]:
        n = len(vals)
        for variant in ('name', 'value', 'both', 'bare'):
            base = D.make_decl(r, label, vals, 'asc', 'explicit', 'default', rnd)
            d = dict(base)
            if variant == 'name':
                # names ascending in declaration order, values shuffled
                perm = list(range(n)); rnd.shuffle(perm)
                vs = [dict(base['variants'][i]) for i in perm]
                for pos, v in enumerate(vs):
                    v['ident'] = D.ident(pos)
                d['variants'] = vs; d['order'] = 'sorted-by-name'
                sp = {'name': True}
            elif variant == 'value':
                # values ascending, names not: identifiers reversed, and a hostile rename
                vs = [dict(v) for v in base['variants']]
                for pos, v in enumerate(vs):
                    v['ident'] = D.ident(n - 1 - pos)
                if n >= 3:
                    vs[1]['rename'] = 'zzz'
                d['variants'] = vs; d['order'] = 'sorted-by-value'
                sp = {'value': True}
            elif variant == 'both':
                sp = {'name': True, 'value': True}
            else:
                sp = {}
            for (a, f, t, it) in [('table', 'table', 'table', 'next_and_back'), ('match', 'match', 'match', 'table'), (None, None, None, None)]:
                c = D.full_config(a, f, t, it, True, split=2)
                c['features'] = [('sorted', sp)] + c['features']
                add(d, c, kind='sorted', classes=['sorted=' + variant])
    # every pair of features (plus iter when range needs it), gapless and holes
    import itertools as _it2
    for r, label, vals in [('i8', 'holes_neg_later', [-10, -9, -5, -4, 3]), ('u16', 'gapless_pos', [5, 6, 7])]:
        d = D.make_decl(r, label, vals, 'asc', 'explicit', 'default', rnd, vis='pub')
        for a, b in _it2.combinations(D.ALL_FEATURES, 2):
            feats = [a, b]
            if 'range' in feats and 'iter' not in feats:
                feats.append('iter')
            add(d, D.config(feats), kind='pair', classes=[a + '+' + b])
    if tier == 'thorough':
        # every triple of features (3-wise covering of the dependency propagation), gapless and holes
        for r, label, vals in [('i8', 'holes_neg_later', [-10, -9, -5, -4, 3]), ('u16', 'gapless_pos', [5, 6, 7])]:
            d = D.make_decl(r, label, vals, 'asc', 'explicit', 'default', rnd, vis='pub')
            for tr in _it2.combinations(D.ALL_FEATURES, 3):
                feats = list(tr)
                if 'range' in feats and 'iter' not in feats:
                    feats.append('iter')
                add(d, D.config(feats), kind='triple', classes=['+'.join(tr)])
    # name / vis / struct_name parameters
    for r, label, vals in [('i16', 'holes2', [0, 1, 9]), ('u8', 'gapless0', [0, 1, 2, 3])]:
        for evis in ['pub', 'pub(crate)', '', 'pub(super)', 'pub(in crate::MOD)', 'pub(in super)', 'pub(self)', 'pub(in self)', 'pub(in crate::MOD::inner)', 'pub(in super::super /*MOD*/)', 'pub(in crate)']:
            d = D.make_decl(r, label, vals, 'asc', 'explicit', 'default', rnd, vis=evis)
            for pv in [None, '', 'pub(crate)', 'pub']:
                for named in [False, True, 'dunder']:
                    if named == 'dunder' and not (pv in (None, 'pub') and evis in ('pub', '')):
                        continue
                    params = {}
                    for f in D.HAS_NAME_VIS:
                        p = {}
                        fpv = pv
                        if f in ('iter', 'range'):
                            # an iterator struct more visible than the enum it yields is a user error (E0446), not a supported configuration
                            # (the names struct yields &str: there a wider visibility than the enum's is legal and must be honoured)
                            if pv == 'pub' and evis != 'pub':
                                fpv = None
                            if pv == 'pub(crate)' and evis not in ('pub', 'pub(crate)', 'pub(super)', 'pub(in super)', 'pub(in super::super /*MOD*/)', 'pub(in crate)'):
                                fpv = None
                        if fpv is not None:
                            p['vis'] = fpv
                        if named == 'dunder':
                            p['name'] = '__' + f.lower() + '_'       # a user may choose a name that looks like a helper's
                        elif named:
                            p['name'] = ('my_' + f.lower() + ('_ß' if f in ('next', 'as_str', 'iter') else '')) if f not in ('MIN', 'MAX') else {'MIN': 'My_Min', 'MAX': 'my_max'}[f]
                        if named is True and f in D.HAS_STRUCT_NAME:
                            p['struct_name'] = 'My' + f.capitalize() + 'Struct'
                        params[f] = p
                    for it in (['range', 'next_and_back', 'table_inline'] if d['gapless'] else ['next_and_back', 'table', 'table_inline']):
                        feats = D.ALL_FEATURES if it != 'table_inline' else [x for x in D.ALL_FEATURES if x != 'range']
                        add(d, D.config(feats, {'iter': it, 'as_str': 'table'}, params, split=2), kind='params',
                            classes=['evis=' + evis, 'vis=' + str(pv), 'named=' + str(named), 'iter=' + it])
    # every feature its own visibility: all ordered pairs (vis of f, vis of g) occur, in particular iter narrower than range,
    # helpers narrower / wider than their users
    VIS3 = ['', 'pub(crate)', 'pub', None]
    for r, label, vals in [('i16', 'holes2', [0, 1, 9]), ('u8', 'gapless0', [0, 1, 2, 3])]:
        d = D.make_decl(r, label, vals, 'asc', 'explicit', 'default', rnd, vis='pub')
        for rot in range(4):
            for stride in (1, 3):
                params = {f: ({} if VIS3[(rot + stride * i) % 4] is None else {'vis': VIS3[(rot + stride * i) % 4]}) for i, f in enumerate(D.HAS_NAME_VIS)}
                for it in (['range', 'table'] if d['gapless'] else ['next_and_back', 'table']):
                    add(d, D.config(D.ALL_FEATURES, {'iter': it}, params, split=1), kind='vismix', classes=['rot=%d/%d' % (rot, stride), 'iter=' + it])
        # iter private, range at the enum's visibility / explicit, and the reverse
        for iv, rv in [('', None), ('', 'pub'), ('', 'pub(crate)'), ('pub(crate)', 'pub'), ('pub(crate)', None), ('pub', ''), (None, '')]:
            params = {'iter': {} if iv is None else {'vis': iv}, 'range': {} if rv is None else {'vis': rv}}
            add(d, D.config(['iter', 'range'], {'iter': 'table'}, params), kind='vismix', classes=['iter=%s' % iv, 'range=%s' % rv])
            add(d, D.config(['iter', 'range', 'names', 'next', 'MIN'], {}, params), kind='vismix', classes=['iter=%s' % iv, 'range=%s' % rv, 'auto'])
    # variants named like the derive's default item names (MIN / MAX are not requested here: a constant and a variant of
    # one name cannot both be reached through Self::NAME, that collision is the user's)
    for r, label, vals in [('i16', 'gapless0', [0, 1, 2, 3, 4, 5]), ('u8', 'holes2', [0, 1, 2, 9, 10, 20]), ('i32', 'gapless_neg', [-2, -1, 0, 1])]:
        d = D.make_decl(r, label, vals, 'shuf', 'explicit', 'featnames', rnd, vis='pub')
        gap = d['gapless']
        for (a, f, t, it) in [('table', 'table', 'table', 'next_and_back'), ('match', 'match', 'match', 'table'), (None, None, None, None), ('match', 'table', 'match', 'range' if gap else 'table_inline')]:
            c = D.full_config(a, f, t, it, True, split=1, drop=('MIN', 'MAX'))
            add(d, c, kind='featnames')
        for fs in (['next'], ['next_back'], ['iter'], ['iter', 'range'], ['try_from'], ['names'], ['next', 'next_back', 'iter']):
            add(d, D.config(fs), kind='featnames', classes=['+'.join(fs)])
    # enums named like prelude / core items (the derive names the enum inside bodies that import core traits)
    for en in ['Iterator', 'Option', 'Some', 'None', 'Result', 'Ok', 'Err', 'FromStr', 'TryFrom', 'From', 'Into', 'Copy', 'Clone', 'Debug', 'Display', 'DoubleEndedIterator',
               'ExactSizeIterator', 'FusedIterator', 'IntoIterator', 'RangeInclusive', 'Formatter', 'Self_', 'core', 'std', 'transmute', 'Sized', 'Default', 'String', 'Vec', 'Box']:
        for r, label, vals in [('i8', 'holes_neg_later', [-10, -9, -5, -4, 3]), ('u16', 'gapless_pos', [5, 6, 7])]:
            d = D.make_decl(r, label, vals, 'shuf', 'explicit', 'default', rnd, vis='pub')
            d['enum_name'] = en
            gap = d['gapless']
            cfgsn = [(None, None, None, None), ('table', 'match', 'table', 'table'), ('match', 'table', 'match', 'next_and_back')] + ([('table', 'table', 'table', 'range')] if gap else [('table', 'table', 'table', 'table_inline')])
            for (a, f, t, it) in cfgsn:
                add(d, D.full_config(a, f, t, it, True, split=1), kind='enumname', classes=['enum=' + en])
    # iterator structs named (through struct_name) like items the constructors use from core
    for sn in ['Iterator', 'IntoIterator', 'Some', 'None', 'Option', 'Ok', 'Err', 'Result', 'DoubleEndedIterator', 'Copied', 'Map', 'RangeInclusive', 'Iter', 'IntoIter', 'MaybeUninit']:
        for r, label, vals in [('i8', 'holes_neg_later', [-10, -9, -5, -4, 3]), ('u16', 'gapless_pos', [5, 6, 7])]:
            d = D.make_decl(r, label, vals, 'asc', 'explicit', 'default', rnd, vis='pub')
            gap = d['gapless']
            for it in ([None, 'range', 'table', 'next_and_back', 'table_inline'] if gap else [None, 'table', 'next_and_back', 'table_inline']):
                if tier == 'quick' and sn not in ('Iterator', 'IntoIterator', 'Some', 'Option') and it in ('table', 'next_and_back'):
                    continue
                feats = ['iter', 'names'] + (['range'] if it != 'table_inline' else [])
                add(d, D.config(feats, {'iter': it}, {'iter': {'struct_name': sn}, 'names': {'struct_name': sn + 'N'}}), kind='structname', classes=['struct=' + sn, 'iter=' + str(it)])
            add(d, D.config(['names', 'as_str'], {}, {'names': {'struct_name': sn}}), kind='structname', classes=['struct=' + sn, 'names'])
    # the same enum also carries the standard derives (incl. Default with #[default] on a variant) and enum-level foreign attributes
    for r, label, vals in [('i8', 'holes_neg_later', [-10, -9, -5, -4, 3]), ('u16', 'gapless_pos', [5, 6, 7])]:
        for dv, ea in [('Clone, Copy, PartialEq, Eq, PartialOrd, Ord, Hash, Debug, Default, EnumTools', ['#[non_exhaustive]']),
                       ('EnumTools, Clone, Copy, PartialEq', ['/// documented', '#[allow(clippy::all)]', '#[cfg_attr(all(), allow(unused))]']),
                       ('Clone, EnumTools, Copy, Default', ['#[must_use]'])]:
            d = D.make_decl(r, label, vals, 'shuf', 'explicit', 'hostile', rnd, vis='pub')
            d['derives'] = dv; d['enum_attrs'] = ea
            if 'Default' in dv:
                v = d['variants'][len(d['variants']) // 2]
                v['attrs'] = list(v.get('attrs', [])) + ['#[default]']
            for (a, f, t, it) in [('table', 'table', 'table', 'next_and_back'), ('match', 'match', 'match', 'table'), (None, None, None, None)]:
                c = D.full_config(a, f, t, it, True, split=2, drop=('Debug',) if 'Debug' in dv else ())
                add(d, c, kind='derives', classes=['derives=' + dv])
    # twins: enums expanded one after the other by the same compiler process whose token streams differ in exactly one place
    # (values / names / repr / visibility / one parameter) - whatever the generator remembers between expansions shows here
    tw = [0]
    def twins(members):
        tw[0] += 1
        for d, c in members:
            n0 = len(insts)
            add(d, c, kind='twins', classes=['group=%d' % tw[0]])
            for x in insts[n0:]:
                x['group'] = 'T%d' % tw[0]
    for cfgk in ((None, None, None, None), ('table', 'table', 'table', 'next_and_back'), ('match', 'match', 'match', 'table')):
        mkc = lambda: D.full_config(*cfgk, True, split=1)
        base = D.make_decl('i16', 'twin', [0, 1, 9], 'asc', 'explicit', 'default', rnd, vis='pub')
        def variant_of(vals=None, renames=None, repr_=None, vis=None, order=None):
            d = dict(base)
            vs = [dict(v) for v in base['variants']]
            if vals:
                for v, nv in zip(vs, vals):
                    v['value'] = nv; v['lit'] = str(nv)
            if renames:
                for v, rn in zip(vs, renames):
                    v['rename'] = rn
            if order:
                vs = [vs[i] for i in order]
            d['variants'] = vs
            if repr_:
                d['repr'] = repr_
            if vis is not None:
                d['vis'] = vis
            allv = sorted(v['value'] for v in vs)
            d['gapless'] = len(D.runs_of(allv)) == 1
            d['label'] = 'twin'
            return d
        twins([(variant_of(), mkc()), (variant_of(vals=[5, 6, 7]), mkc()), (variant_of(vals=[9, 1, 0]), mkc()), (variant_of(vals=[-3, 20, 21]), mkc()), (variant_of(), mkc())])
        twins([(variant_of(renames=['x', None, None]), mkc()), (variant_of(renames=['y', None, None]), mkc()), (variant_of(renames=[None, 'x', None]), mkc()), (variant_of(renames=['C', 'B', 'A']), mkc())])
        twins([(variant_of(repr_='i16'), mkc()), (variant_of(repr_='u8'), mkc()), (variant_of(repr_='u64'), mkc()), (variant_of(repr_='isize'), mkc()), (variant_of(repr_='i8'), mkc())])
        twins([(variant_of(vis='pub'), mkc()), (variant_of(vis=''), mkc()), (variant_of(vis='pub(crate)'), mkc()), (variant_of(vis='pub'), mkc())])
        twins([(variant_of(), mkc()), (variant_of(order=[2, 0, 1]), mkc()), (variant_of(order=[1, 2, 0]), mkc())])
    # the same declaration under configurations that differ in one parameter / one mode / one feature
    base = D.make_decl('u8', 'twin', [0, 1, 2, 9], 'asc', 'explicit', 'default', rnd, vis='pub')
    twins([(base, D.config(D.ALL_FEATURES, {'as_str': m, 'iter': 'table'})) for m in ('match', 'table', None)] +
          [(base, D.config(D.ALL_FEATURES, {'iter': m})) for m in ('table', 'next_and_back', None)] +
          [(base, D.config(D.ALL_FEATURES, {'iter': 'table'}, {'next': {'name': nm}})) for nm in ('succ', 'next', 'following')] +
          [(base, D.config([f for f in D.ALL_FEATURES if f != drop], {'iter': 'table'})) for drop in ('MIN', 'names', 'Debug', 'next')])
    # ---- families for the metamorphic properties (C18, C10 split): members differ in exactly one dimension
    fam = [0]
    def family(kind, members):
        fam[0] += 1
        for label, d, cfg in members:
            if D.config_legal(cfg, d):
                insts.append({'decl': d, 'cfg': cfg, 'kind': kind, 'family': 'F%03d' % fam[0], 'member': label,
                              'classes': [d['repr'], d['label'], d['order'], d['spelling'], d['naming'], kind]})
    import itertools as _it
    sets = [('i16', 'holes_neg_later', [-10, -9, -5, -4, 3]), ('u8', 'gapless0', [0, 1, 2, 3]), ('i32', 'holes2', [0, 1, 9]), ('i8', 'gapless_neg', [-2, -1, 0, 1]),
            ('i64', 'holes_mixed', [1, 2, 3, 4, 10, 20, 21, 30, 31, 32, 33, 34, 35]), ('u16', 'gapless_257', list(range(0, 257)))]
    cfgs = [('explicit', lambda g: D.full_config('table', 'table', 'match', 'next_and_back', True, split=1)),
            ('tables', lambda g: D.full_config('match', 'match', 'table', 'table', True, split=1)),
            ('auto', lambda g: D.full_config(None, None, None, None, True, split=1))]
    for r, label, vals in sets:
        n = len(vals)
        for cname, mk in cfgs:
            members = []
            for naming in ('hostile',):
                base = D.make_decl(r, label, vals, 'asc', 'explicit', naming, rnd)
                orders = []
                if n <= 4:
                    orders = list(_it.permutations(range(n)))
                    if tier == 'quick':
                        orders = orders[::5] + [orders[-1]]
                else:
                    orders = [tuple(range(n)), tuple(reversed(range(n)))]
                    for _ in range(2 if tier == 'quick' else 6):
                        p = list(range(n)); rnd.shuffle(p); orders.append(tuple(p))
                for oi, perm in enumerate(orders):
                    d = dict(base); d['variants'] = [base['variants'][i] for i in perm]; d['order'] = 'perm%d' % oi
                    members.append(('order=%s' % (list(perm) if n <= 6 else oi), d, mk(d['gapless'])))
            family('perm', members)
        # the same value -> name map declared with implicit discriminants: runs in every order, the first of a run explicit, the rest
        # implicit, next to the fully explicit declaration (the map, not the spelling, decides the expansion)
        rs = D.runs_of(vals)
        if 2 <= len(rs) <= 4:
            for cname, mk in cfgs[:2]:
                base = D.make_decl(r, label, vals, 'asc', 'explicit', 'default', rnd)
                byv = {v['value']: v for v in base['variants']}
                members = [('explicit', base, mk(base['gapless']))]
                for oi, perm in enumerate(_it.permutations(range(len(rs)))):
                    vs = []
                    for ri in perm:
                        b, e = rs[ri]
                        for v in range(b, e + 1):
                            x = dict(byv[v]); x['lit'] = str(v) if v == b else None
                            vs.append(x)
                    d = dict(base); d['variants'] = vs; d['order'] = 'runperm%d' % oi; d['spelling'] = 'mixed'
                    members.append(('runs=%s implicit' % list(perm), d, mk(d['gapless'])))
                family('perm', members)
    # repr families: every repr that can hold the values (pointer-sized reprs are compared against the 64-bit member of their signedness)
    for label, vals in [('holes_neg_later', [-10, -9, -5, -4, 3]), ('gapless0', [0, 1, 2, 3]), ('holes_mixed', [1, 2, 3, 4, 10, 20, 21, 30, 31, 32, 33, 34, 35]),
                        ('gapless_130', list(range(-100, 30)) ), ('gapless_pos200', list(range(0, 200))),
                        ('holes_pos_wide', [0, 1, (1 << 32), (1 << 32) + 1, 1 << 40, I64]), ('holes_neg_wide', [-(1 << 63), -(1 << 40), -1, 0, (1 << 33), (1 << 33) + 1]),
                        ('gapless_above_u32', list(range((1 << 32) + 5, (1 << 32) + 9))), ('gapless_below_i32', list(range(-(1 << 31) - 9, -(1 << 31) - 5))),
                        ('gapless_above_u16', list(range(65536, 65540))), ('holes_above_u8', [256, 257, 300])]:
        for cname, mk in cfgs[:2]:
            members = []
            for r in D.REPRS:
                lo, hi = D.dom_bounds(r)
                if vals[0] < lo or vals[-1] > hi:
                    continue
                d = D.make_decl(r, label, vals, 'asc', 'explicit', 'default', rnd)
                members.append(('repr=%s' % r, d, mk(d['gapless'])))
            family('reprfam', members)
    # repr families under `auto` and partial feature sets: what auto resolves to depends on the repr's size, so the tokens may differ -
    # but every member must be accepted and every item must meet its specification (no token comparison for these)
    for label, vals in [('holes2', [0, 1, 9]), ('holes_neg_later', [-10, -9, -5, -4, 3]), ('gapless0', [0, 1, 2, 3])]:
        for fs in (['iter'], ['iter', 'next'], ['iter', 'next_back'], ['iter', 'next', 'next_back'], ['iter', 'range'], ['iter', 'names'], ['iter', 'as_str'], ['iter', 'from_str'],
                   ['iter', 'FromStr', 'range'], ['as_str', 'names'], ['as_str', 'Display'], ['from_str', 'FromStr'], ['try_from'], ['next'], ['names', 'IntoStr']):
            members = []
            for r in D.REPRS:
                lo, hi = D.dom_bounds(r)
                if vals[0] < lo or vals[-1] > hi:
                    continue
                d = D.make_decl(r, label, vals, 'asc', 'explicit', 'default', rnd)
                members.append(('repr=%s' % r, d, D.config(fs)))
            family('reprauto', members)
    # split families: the same features in 1, 2, 3 attributes
    for r, label, vals in sets[:4]:
        d = D.make_decl(r, label, vals, 'shuf', 'explicit', 'hostile', rnd)
        for cname, mk in cfgs:
            members = []
            for k in (1, 2, 3, 5):
                for rp in (('last',) if k == 1 else ('last', 'first', 'middle')):
                    c = mk(d['gapless']); c = dict(c); c['split'] = k; c['repr_pos'] = rp
                    members.append(('split=%d repr=%s' % (k, rp), d, c))
            family('split', members)
    # non-interference families (C09): one feature with a fixed explicit mode, alone and next to every other feature and in
    # the full set - its own items must expand to the same tokens in every member
    NI = [('as_str', 'match'), ('as_str', 'table'), ('from_str', 'match'), ('from_str', 'table'), ('FromStr', 'match'), ('FromStr', 'table'),
          ('iter', 'range'), ('iter', 'next_and_back'), ('iter', 'table'), ('iter', 'table_inline'), ('try_from', None), ('TryFrom', None),
          ('next', None), ('next_back', None), ('names', None), ('into', None), ('Debug', None), ('MIN', None)]
    for r, label, vals in [('i16', 'holes_neg_later', [-10, -9, -5, -4, 3]), ('u8', 'gapless0', [0, 1, 2, 3])]:
        d = D.make_decl(r, label, vals, 'shuf', 'explicit', 'hostile', rnd, vis='pub')
        for f, m in NI:
            members = []
            others = [o for o in D.ALL_FEATURES if o != f]
            if tier == 'quick':
                others = others[::3]
            sets = [[f]] + [[f, o] for o in others] + [list(D.ALL_FEATURES)]
            for fs in sets:
                fs = list(fs)
                if 'range' in fs and 'iter' not in fs:
                    fs.append('iter')
                if 'range' in fs and f == 'iter' and m == 'table_inline':
                    fs = [x for x in fs if x != 'range']
                modes = {f: m} if m else {}
                # other moded features get explicit modes too in the full set so that only co-presence varies
                c = D.config(fs, modes, split=1)
                members.append(('with=%s' % '+'.join(x for x in fs if x != f), d, c))
            family('noninterf:%s:%s' % (f, m), members)
    if tier == 'thorough':
        # the size limit: 65 534 variants with every feature in table / cursor modes (match modes would only repeat 65 534 arms)
        hv = list(range(0, 65534))
        add(D.make_decl('u16', 'gapless_65534', hv, 'asc', 'implicit', 'default', rnd), D.full_config('table', 'table', 'table', 'next_and_back', True, split=1), kind='huge')
        hv2 = list(range(-30000, 0)) + list(range(5, 20000)) + list(range(100000, 115529))
        add(D.make_decl('i32', 'holes_65524', hv2, 'asc', 'mixed', 'default', rnd), D.full_config('table', 'table', 'table', 'table', True, split=1), kind='huge')
        hv3 = [v for v in range(0, 24000) if v % 4 != 3]
        add(D.make_decl('u64', 'holes_6000_runs', hv3, 'asc', 'explicit', 'default', rnd), D.full_config('table', 'table', 'table', 'next_and_back', True, split=1), kind='huge')
        # seeded random members of the same classes
        for _ in range(200):
            r = rnd.choice(D.REPRS)
            lo, hi = D.dom_bounds(r)
            n = rnd.choice([1, 2, 3, 5, 8, 13, 40])
            base = rnd.choice([lo, hi - 200, 0, -64 if D.repr_signed(r) else 64, max(lo, -5)])
            base = max(lo, min(base, hi - 200))
            pool = list(range(base, base + 200))
            vals = sorted(rnd.sample(pool, n)) if rnd.random() < 0.7 else list(range(base, base + n))
            d = D.make_decl(r, 'random', vals, rnd.choice(['asc', 'desc', 'shuf', 'runshuf']), rnd.choice(['explicit', 'fancy']),
                            rnd.choice(['default', 'hostile', 'dup', 'swap']), rnd)
            gapless = d['gapless']
            a, f, t = rnd.choice(AS), rnd.choice(AS), rnd.choice(AS)
            it = rnd.choice(IT_G if gapless else IT_H)
            add(d, D.full_config(a, f, t, it, True, split=rnd.choice([1, 2, 3])), kind='random')
    # ---- random members over the product of ALL dimensions (own generator, so the fixed part above does not move)
    rr = random.Random(seed * 7919 + 17)
    for _ in range(300 if tier == 'quick' else 3000):
        d, c = random_instance(rr)
        add(d, c, kind='mix', classes=['ctx=%s' % d.get('context'), 'enum=%s' % d.get('enum_name', 'E')])
    for i, x in enumerate(insts):
        x['id'] = 'm%04d' % i
    return insts

ENUM_NAMES = ['E', 'E', 'E', 'E', 'Iterator', 'Option', 'Some', 'None', 'Result', 'Ok', 'Err', 'FromStr', 'TryFrom', 'IntoIterator', 'Self_', 'e', 'Ünum', 'X9']
CONTEXTS = [None, None, None, None, None, 'fn', 'block', 'const', 'implfn', 'traitfn', 'closure', 'macro', 'macro_tt']
STRUCT_NAMES = [None, None, None, 'S', 'Iterator', 'Some', 'IntoIterator', 'Iter', 'my_struct', 'Ω']

def random_values(rr, r):
    lo, hi = D.dom_bounds(r)
    vs = sorted({v for v in _random_values(rr, r) if lo <= v <= hi})
    return vs or [lo]

def _random_values(rr, r):
    lo, hi = D.dom_bounds(r)
    bits = D.repr_bits(r)
    anchors = [0, lo, hi, 1, -1 if lo < 0 else 2]
    for w in (8, 16, 32, 64):
        if w < bits:
            anchors += [(1 << w) - 1, 1 << (w - 1), (1 << w)] + ([-(1 << (w - 1))] if lo < 0 else [])
    anchors = [a for a in anchors if lo <= a <= hi]
    n = rr.choice([1, 2, 2, 3, 3, 4, 5, 8, 13, 40, 130])
    shape = rr.choice(['gapless', 'holes', 'holes', 'singletons', 'two-anchors', 'flags'])
    a = rr.choice(anchors)
    if shape == 'gapless':
        b = max(lo, min(a - rr.randrange(0, n + 1), hi - n + 1))
        return list(range(b, b + n))
    if shape == 'flags':
        top = min(bits, 63) - 1
        ks = sorted(rr.sample(range(0, top + 1), min(n if n < 20 else 7, top + 1)))
        return [1 << k for k in ks] + ([0] if rr.random() < 0.2 else [])
    if shape == 'singletons':
        step = rr.choice([2, 3, 256, 65536])
        b = max(lo, min(a, hi - step * n))
        return [b + step * i for i in range(n)]
    span = n + rr.choice([1, 2, 5, 200])
    b = max(lo, min(a - rr.randrange(0, span), hi - span))
    vals = set(rr.sample(range(b, b + span + 1), min(n, span + 1)))
    if shape == 'two-anchors':
        a2 = rr.choice(anchors)
        vals |= {v for v in (a2 - 1, a2, a2 + 1) if lo <= v <= hi and rr.random() < 0.7}
    return sorted(vals) or [a]

def random_instance(rr):
    r = rr.choice(D.REPRS)
    vals = random_values(rr, r)
    n = len(vals)
    order = rr.choice(['asc', 'desc', 'shuf', 'runshuf'])
    spelling = 'explicit'
    if order == 'asc':
        spelling = rr.choice(['explicit', 'mixed', 'fancy'] + (['implicit'] if vals == list(range(0, n)) else []))
    elif order in ('desc', 'shuf'):
        spelling = rr.choice(['explicit', 'fancy'])
    naming = rr.choice(['default', 'default', 'hostile', 'dup', 'swap', 'idents', 'prefix', 'featnames'])
    cx = rr.choice(CONTEXTS)
    vis = '' if cx in D.BODY_CONTEXTS else rr.choice(['pub', 'pub(crate)', '', 'pub(super)'] + ([] if cx else ['pub(in crate::MOD)']))
    if cx in ('macro', 'macro_tt') and vis == '':
        vis = 'pub(crate)'
    d = D.make_decl(r, 'mix', vals, order, spelling, naming, rr, vis=vis)
    if cx:
        d['context'] = cx
    en = rr.choice(ENUM_NAMES)
    if en != 'E':
        d['enum_name'] = en
    gap = d['gapless']
    # other derives and foreign attributes on the same item
    extra = [x for x in ('PartialEq', 'Eq', 'PartialOrd', 'Ord', 'Hash', 'Debug', 'Default') if rr.random() < 0.25]
    if 'Eq' in extra and 'PartialEq' not in extra:
        extra.append('PartialEq')
    if 'Ord' in extra:
        extra += [x for x in ('PartialOrd', 'Eq', 'PartialEq') if x not in extra]
    if 'PartialOrd' in extra and 'PartialEq' not in extra:
        extra.append('PartialEq')
    if cx in ('macro',):
        extra = []
    ds = ['Clone', 'Copy', 'EnumTools'] + extra
    rr.shuffle(ds)
    d['derives'] = ', '.join(ds)
    if 'Default' in extra:
        v = rr.choice(d['variants'])
        v['attrs'] = list(v.get('attrs', [])) + ['#[default]']
    d['enum_attrs'] = [a for a in ('#[non_exhaustive]', '/// doc', '#[allow(dead_code)]', '#[cfg_attr(all(), allow(unused))]', '#[must_use]') if rr.random() < 0.2]
    # configuration: a random feature set closed under the documented requirement (range needs iter), random modes and parameters
    feats = [f for f in D.ALL_FEATURES if rr.random() < rr.choice([0.3, 0.6, 1.0])] or ['into']
    if naming == 'featnames':
        feats = [f for f in feats if f not in ('MIN', 'MAX')] or ['next']
    if 'Debug' in extra:
        feats = [f for f in feats if f != 'Debug'] or ['into']
    if 'range' in feats and 'iter' not in feats:
        feats.append('iter')
    modes = {}
    for f in ('as_str', 'from_str', 'FromStr'):
        modes[f] = rr.choice(AS)
    modes['iter'] = rr.choice(IT_G if gap else IT_H)
    if n > 200 and modes['iter'] == 'table_inline':
        modes['iter'] = 'table'
    if modes['iter'] == 'table_inline':
        feats = [f for f in feats if f != 'range']
    params = {}
    narrow = {'pub': ['', 'pub(crate)', 'pub'], 'pub(crate)': ['', 'pub(crate)'], 'pub(super)': ['', 'pub(crate)']}.get(vis, [''])
    used_names = set()
    for f in feats:
        if f not in D.HAS_NAME_VIS:
            continue
        p = {}
        if rr.random() < 0.3:
            # an iterator struct may not be more visible than the enum (E0446); functions, constants and the names struct may
            p['vis'] = rr.choice(narrow if f in ('iter', 'range') else ['', 'pub(crate)', 'pub'])
        if rr.random() < 0.25:
            nm = rr.choice(['my_' + f.lower(), f + '_2', 'ß_' + f.lower(), 'r#' + f.lower() if False else 'x' + f.lower()])
            if nm not in used_names:
                p['name'] = nm; used_names.add(nm)
        if f in D.HAS_STRUCT_NAME and rr.random() < 0.4:
            sn = rr.choice(STRUCT_NAMES)
            if sn and sn != d.get('enum_name') and sn not in used_names:
                p['struct_name'] = sn; used_names.add(sn)
        if p:
            params[f] = p
    if 'iter' in params and 'names' in params and params['iter'].get('struct_name') == params['names'].get('struct_name'):
        params['names'].pop('struct_name', None)
    rr.shuffle(feats)
    c = D.config(feats, {k: v for k, v in modes.items() if k in feats}, params, split=rr.choice([1, 1, 2, 3, 5]))
    c['repr_pos'] = rr.choice(['last', 'first', 'middle'])
    # sorted(..) where the declaration happens to satisfy it
    decl_vals = [v['value'] for v in d['variants']]
    nm = [D.decl_name(d, v).encode('utf8') for v in d['variants']]
    by_value = all(a < b for a, b in zip(decl_vals, decl_vals[1:]))
    by_name = all(a < b for a, b in zip(nm, nm[1:]))
    if rr.random() < 0.5:
        sp = {}
        if by_value and rr.random() < 0.8:
            sp['value'] = True
        if by_name and rr.random() < 0.8:
            sp['name'] = True
        c['features'] = [('sorted', sp)] + c['features']
    return d, c

def write_workspace(root, insts, repo='/repo', shards=16, crate_prefix='s', hostile=False):
    os.makedirs(root, exist_ok=True)
    members = []
    per = [[] for _ in range(shards)]
    # balance by size
    order = sorted(range(len(insts)), key=lambda i: -insts[i]['decl']['n'])
    load = [0] * shards
    group_shard = {}
    for i in order:
        g = insts[i].get('group')
        if g is not None and g in group_shard:
            j = group_shard[g]           # members of a group are expanded by the same compiler process, one after the other
        else:
            j = load.index(min(load))
            if g is not None:
                group_shard[g] = j
        per[j].append(i)
        load[j] += 20 + insts[i]['decl']['n']
    for j in range(shards):
        if not per[j]:
            continue
        cname = '%s%02d' % (crate_prefix, j)
        members.append(cname)
        cdir = os.path.join(root, cname)
        os.makedirs(os.path.join(cdir, 'src'), exist_ok=True)
        with open(os.path.join(cdir, 'Cargo.toml'), 'w') as f:
            f.write('[package]\nname = "%s"\nversion = "0.0.0"\nedition = "2021"\n[lib]\npath = "src/lib.rs"\n[dependencies]\nenum-tools = { path = "%s" }\n' % (cname, repo))
        lines = (['#![no_std]'] if hostile else []) + ['#![allow(dead_code, unused_imports, non_camel_case_types, non_snake_case, non_upper_case_globals, unused_macros)]', 'pub mod pm { }']
        if hostile:
            # user impls of comparison / conversion / arithmetic traits for the primitive integer types (as linking e.g. serde_json adds):
            # derived code that leaves an integer type to inference (`x as _`, an unsuffixed literal next to `==`) stops compiling
            lines.append('pub struct HostileW;')
            for r in D.REPRS:
                lines += ['impl ::core::cmp::PartialEq<HostileW> for %s { fn eq(&self, _: &HostileW) -> bool { false } }' % r,
                          'impl ::core::cmp::PartialOrd<HostileW> for %s { fn partial_cmp(&self, _: &HostileW) -> ::core::option::Option<::core::cmp::Ordering> { ::core::option::Option::None } }' % r,
                          'impl ::core::ops::Add<HostileW> for %s { type Output = %s; fn add(self, _: HostileW) -> %s { self } }' % (r, r, r),
                          'impl ::core::ops::Sub<HostileW> for %s { type Output = %s; fn sub(self, _: HostileW) -> %s { self } }' % (r, r, r),
                          'impl ::core::convert::From<HostileW> for %s { fn from(_: HostileW) -> %s { 0 } }' % (r, r),
                          'impl ::core::cmp::PartialEq<%s> for HostileW { fn eq(&self, _: &%s) -> bool { false } }' % (r, r)]
            lines += ['impl ::core::cmp::PartialEq<HostileW> for str { fn eq(&self, _: &HostileW) -> bool { false } }', "impl<'a> ::core::cmp::PartialEq<HostileW> for &'a str { fn eq(&self, _: &HostileW) -> bool { false } }",
                      'impl ::core::ops::Index<HostileW> for [&str] { type Output = str; fn index(&self, _: HostileW) -> &str { "" } }']
        for i in sorted(per[j]):
            x = insts[i]
            x['crate'] = cname
            lines += D.render_module(x['id'], x['decl'], x['cfg'], hostile=hostile)
        with open(os.path.join(cdir, 'src', 'lib.rs'), 'w') as f:
            f.write('\n'.join(lines) + '\n')
    with open(os.path.join(root, 'Cargo.toml'), 'w') as f:
        f.write('[workspace]\nresolver = "2"\nmembers = [%s]\n' % ', '.join('"%s"' % m for m in members))
    lock = os.path.join(repo, 'Cargo.lock')
    if os.path.exists(lock):
        import shutil
        shutil.copy(lock, os.path.join(root, 'Cargo.lock'))
    os.makedirs(os.path.join(root, '.cargo'), exist_ok=True)
    with open(os.path.join(root, '.cargo', 'config.toml'), 'w') as f:
        f.write('[net]\noffline = true\n')
    return members
