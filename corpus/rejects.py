"""Reject / accept witness batches for C12, C13, C14 (DESIGN.md 3.3 'Reject batch').
Every reject case has a compiling twin that differs only by the offending token(s), so a case cannot pass because
of a typo in the witness.  One module per case; one rustc run per batch; verdict per case = diagnostics located in
its module."""
import itertools

HDR = ['    #![no_implicit_prelude]', '    #![allow(dead_code, non_camel_case_types, unused_imports)]', '    use ::enum_tools::EnumTools;']

def case(cid, prop, cls, body, expect, owner='derive', note=''):
    """body: list of source lines inside the module (after the header). expect: 'reject' | 'accept'"""
    return {'id': cid, 'prop': prop, 'class': cls, 'body': body, 'expect': expect, 'owner': owner, 'note': note}

def enum_src(attrs, repr_, variants, derive='Clone, Copy, EnumTools', kw='enum', name='E', repr_line=None, body=None):
    ls = ['#[derive(%s)]' % derive] + list(attrs)
    if repr_line is not None:
        ls += repr_line
    elif repr_ is not None:
        ls.append('#[repr(%s)]' % repr_)
    if body is not None:
        ls.append('pub %s %s %s' % (kw, name, body))
    else:
        ls.append('pub %s %s { %s }' % (kw, name, ', '.join(variants)))
    return ls

# ------------------------------------------------------------------------------------------------ C12
def c12_cases(tier):
    out = []
    FEAT = ['#[enum_tools(into, try_from, MIN, MAX, iter, as_str)]']
    n = [0]
    def add(cls, lines, expect='reject', owner='derive', note=''):
        n[0] += 1
        out.append(case('c12_%03d' % n[0], 'C12', cls, lines, expect, owner, note))
    def pair(cls, bad_variants, good_variants, repr_='i32', owner='derive', pre=(), note=''):
        add(cls, list(pre) + enum_src(FEAT, repr_, bad_variants), 'reject', owner, note)
        add(cls + '/twin', list(pre) + enum_src(FEAT, repr_, good_variants), 'accept')
    # ---- discriminant expression forms (every syn::Expr class that can stand after `=`)
    G = ['A = 1', 'B = 2', 'C = 5']
    pre_const = ['pub const K: i32 = 5;']
    exprs = [
        ('path-const', 'C = K', pre_const), ('path-qualified', 'C = self::K', pre_const), ('binary', 'C = 2 + 3', ()), ('binary-shift', 'C = 1 << 2', ()),
        ('cast', 'C = 5 as i32', ()), ('paren', 'C = (5)', ()), ('double-neg', 'C = - -5', ()), ('neg-paren', 'C = -(5)', ()),
        ('not', 'C = !0', ()), ('block', 'C = { 5 }', ()), ('call', 'C = f()', ['pub const fn f() -> i32 { 5 }']),
        ('macro', 'C = five!()', ['macro_rules! five { () => { 5 } }']), ('if', 'C = if true { 5 } else { 6 }', ()),
        ('unsafe-block', 'C = unsafe { 5 }', ()), ('const-block', 'C = const { 5 }', ()), ('method', 'C = 5i32.wrapping_add(0)', ()),
        ('index', 'C = [5][0]', ()), ('tuple-field', 'C = (5, 6).0', ()), ('match', 'C = match 0 { _ => 5 }', ()),
        ('group-from-macro', None, ()),
    ]
    for cls, v, pre in exprs:
        if v is None:
            # a literal that reaches the derive wrapped in a None-delimited group: macro_rules `$e:expr`
            add('expr/' + cls, ['macro_rules! mk { ($e:expr) => { #[derive(Clone, Copy, EnumTools)] #[enum_tools(into, try_from, MIN, MAX, iter, as_str)] #[repr(i32)] pub enum E { A = 1, B = 2, C = $e } } }', 'mk!(5);'], 'reject', 'derive',
                'literal behind a macro_rules expr fragment (None-delimited group)')
            add('expr/' + cls + '/twin', ['macro_rules! mk { ($e:tt) => { #[derive(Clone, Copy, EnumTools)] #[enum_tools(into, try_from, MIN, MAX, iter, as_str)] #[repr(i32)] pub enum E { A = 1, B = 2, C = $e } } }', 'mk!(5);'], 'accept')
            continue
        pair('expr/' + cls, ['A = 1', 'B = 2', v], G, pre=pre)
    # literal kinds (rustc rejects most of them itself; the derive must not accept either)
    for cls, v, owner in [('lit-byte', "C = b'a'", 'any'), ('lit-char', "C = 'a'", 'any'), ('lit-float', 'C = 5.0', 'any'), ('lit-str', 'C = "5"', 'any'), ('lit-bool', 'C = true', 'any'), ('lit-bytestr', 'C = b"5"', 'any')]:
        pair('expr/' + cls, ['A = 1', 'B = 2', v], G, owner=owner)
    # a byte literal is a legal discriminant of a repr(u8) enum as far as rustc is concerned: the derive itself has to refuse it
    pair('expr/lit-byte-u8', ['A = 1', 'B = 2', "C = b'a'"], ['A = 1', 'B = 2', 'C = 97'], repr_='u8')
    pair('expr/lit-byte-escape-u8', ['A = 1', "B = b'\\x53'"], ['A = 1', 'B = 0x53'], repr_='u8')
    pair('expr/neg-lit-byte', ['A = 1', "B = -b'a'"], ['A = 1', 'B = -97'], repr_='i16', owner='any')
    # outside i64
    pair('range/above-i64', ['A = 1', 'B = 9223372036854775808'], ['A = 1', 'B = 9223372036854775807'], repr_='u64')
    pair('range/above-i64-u128', ['A = 1', 'B = 0x1_0000_0000_0000_0000'], ['A = 1', 'B = 0xFFFF_FFFF_FFFF_FFF'], repr_='u128')
    pair('range/below-i64', ['A = -9223372036854775809', 'B = 0'], ['A = -9223372036854775808', 'B = 0'], repr_='i128')
    pair('range/implicit-overflow', ['A = 9223372036854775807', 'B'], ['A = 9223372036854775806', 'B'], repr_='u64')
    pair('range/implicit-overflow-i128', ['A = 9223372036854775807', 'B', 'C'], ['A = 9223372036854775805', 'B', 'C'], repr_='i128')
    pair('duplicate-value', ['A = 1', 'B = 1'], ['A = 1', 'B = 2'], owner='any')
    pair('duplicate-value-implicit', ['A = 1', 'B = 0', 'C'], ['A = 2', 'B = 0', 'C'], owner='any')
    # ---- fields
    for cls, v in [('fields/tuple', 'C(u8)'), ('fields/struct', 'C { x: u8 }'), ('fields/empty-tuple', 'C()'), ('fields/empty-struct', 'C {}'), ('fields/tuple-with-discr-like', 'C(i32, i32)')]:
        add(cls, enum_src(FEAT, 'i32', ['A', 'B', v], derive='EnumTools'), 'reject')
    # fields together with an explicit discriminant (legal Rust on a primitive-repr enum since 1.66)
    for cls, v in [('fields/tuple+discr', 'C(u8) = 2'), ('fields/struct+discr', 'C { x: bool } = 2'), ('fields/empty-tuple+discr', 'C() = 2'), ('fields/empty-struct+discr', 'C {} = 2')]:
        for fl in (['#[enum_tools(MIN, MAX)]'], ['#[enum_tools()]'], FEAT):
            add(cls, enum_src(fl, 'u8', ['A = 0', 'B = 1', v], derive='EnumTools'), 'reject')
    add('fields/twin', enum_src(FEAT, 'i32', ['A', 'B', 'C']), 'accept')
    add('fields/twin+discr', enum_src(['#[enum_tools(MIN, MAX)]'], 'u8', ['A = 0', 'B = 1', 'C = 2']), 'accept')
    # ---- not an enum
    add('item/struct', ['#[derive(Clone, Copy, EnumTools)]', '#[enum_tools(into)]', '#[repr(C)]', 'pub struct E { x: u8 }'], 'reject')
    add('item/tuple-struct', ['#[derive(Clone, Copy, EnumTools)]', '#[enum_tools(into)]', '#[repr(transparent)]', 'pub struct E(u8);'], 'reject')
    add('item/unit-struct', ['#[derive(Clone, Copy, EnumTools)]', '#[enum_tools(into)]', 'pub struct E;'], 'reject')
    add('item/union', ['#[derive(Clone, Copy, EnumTools)]', '#[enum_tools(into)]', '#[repr(C)]', 'pub union E { x: u8, y: u16 }'], 'reject')
    add('item/empty-enum', ['#[derive(Clone, Copy, EnumTools)]', '#[enum_tools(into)]', '#[repr(u8)]', 'pub enum E { }'], 'reject')
    add('item/twin', ['#[derive(Clone, Copy, EnumTools)]', '#[enum_tools(into)]', '#[repr(u8)]', 'pub enum E { A }'], 'accept')
    # ---- repr forms
    V = ['A', 'B']
    def rp(cls, lines, expect='reject', owner='derive'):
        add('repr/' + cls, enum_src(['#[enum_tools(into, try_from)]'], None, V, repr_line=lines), expect, owner)
    rp('missing', [])
    rp('two-attrs-same', ['#[repr(u8)]', '#[repr(u8)]'])
    rp('two-attrs-different', ['#[repr(u8)]', '#[repr(u16)]'], owner='any')
    rp('two-in-one', ['#[repr(u8, u16)]'], owner='any')
    rp('C', ['#[repr(C)]'])
    rp('C-u8', ['#[repr(C, u8)]'])
    rp('u8-C', ['#[repr(u8, C)]'])
    rp('align', ['#[repr(align(2))]'], owner='any')
    rp('u8-then-align-attr', ['#[repr(u8)]', '#[repr(align(4))]'], owner='any')
    rp('align-then-u8-attr', ['#[repr(align(4))]', '#[repr(u8)]'], owner='any')
    rp('u8-then-C-attr', ['#[repr(u8)]', '#[repr(C)]'])
    rp('C-u8-second-attr', ['#[repr(u8)]', '#[repr(C, u8)]'])
    rp('transparent', ['#[repr(transparent)]'], owner='any')
    rp('packed', ['#[repr(packed)]'], owner='any')
    rp('Rust', ['#[repr(Rust)]'])
    rp('non-primitive-ident', ['#[repr(u7)]'], owner='any')
    rp('name-value', ['#[repr = "u8"]'], owner='any')
    rp('twin-u8', ['#[repr(u8)]'], 'accept')
    rp('twin-isize', ['#[repr(isize)]'], 'accept')
    # the domain checks do not depend on what is requested: every derive-owned reject case again without any item-level
    # enum_tools attribute and with an empty one (and the same for two twins)
    base = list(out)
    for c in base:
        if not any(l.startswith('#[enum_tools(') for l in c['body']):
            continue
        if c['expect'] == 'reject' and c['owner'] != 'derive':
            continue
        if c['expect'] == 'accept' and c['class'] not in ('fields/twin', 'item/twin', 'repr/twin-u8', 'expr/binary/twin'):
            continue
        for tag, repl in (('no-attr', None), ('empty-attr', '#[enum_tools()]')):
            body = []
            for l in c['body']:
                if l.startswith('#[enum_tools('):
                    if repl is not None and repl not in body:
                        body.append(repl)
                else:
                    body.append(l)
            n[0] += 1
            out.append(case('c12_%03d' % n[0], 'C12', c['class'] + '/' + tag, body, c['expect'], c['owner'], c['note']))
    # the size limit on every repr that can hold 65 535 variants
    for r, first in (('u16', 'V0'), ('i16', 'V0 = -32768'), ('u64', 'V0'), ('isize', 'V0 = -5'), ('i128', 'V0')):
        vs = ', '.join([first] + ['V%d' % i for i in range(1, 65535)])
        n[0] += 1
        out.append(case('c12_%03d' % n[0], 'C12', 'size/65535/%s' % r, ['#[derive(Clone, Copy, EnumTools)]', '#[enum_tools(into, MIN, MAX)]', '#[repr(%s)]' % r, 'pub enum E { %s }' % vs], 'reject'))
    return out

def big_enum_case(n, prop, expect):
    """1 module with n implicit unit variants (u32 repr), deriving into only"""
    vs = ', '.join('V%d' % i for i in range(n))
    return case('%s_big_%d' % (prop.lower(), n), prop, 'size/%d' % n, ['#[derive(Clone, Copy, EnumTools)]', '#[enum_tools(into, MIN, MAX)]', '#[repr(u32)]', 'pub enum E { %s }' % vs], expect)

# ------------------------------------------------------------------------------------------------ C13
PARSERS = {   # feature -> a legal parameter list text and whether it takes name/vis
    'as_str': True, 'from_str': True, 'into': True, 'MAX': True, 'MIN': True, 'next': True, 'next_back': True, 'try_from': True,
    'iter': True, 'names': True, 'range': True, 'Debug': False, 'Display': False, 'FromStr': False, 'Into': False, 'IntoStr': False, 'TryFrom': False, 'sorted': False,
}

def c13_cases(tier):
    out = []
    n = [0]
    def add(cls, attrs, expect='reject', variants=None, repr_='i16', owner='derive', note=''):
        n[0] += 1
        for shape, vs in (('gapless', ['A = 1', 'B = 2', 'C = 3']), ('holes', ['A = 1', 'B = 2', 'C = 9'])):
            if variants is not None and shape == 'holes':
                continue
            out.append(case('c13_%03d_%s' % (n[0], shape), 'C13', cls, enum_src(attrs, repr_, variants or vs), expect, owner, note))
    def ctx_feats(f):
        """features that must accompany f to be legal"""
        return 'iter, ' if f == 'range' else ''
    for f, has_nv in PARSERS.items():
        pre = ctx_feats(f)
        add('param/unknown/' + f, ['#[enum_tools(%s%s(bogus))]' % (pre, f)])
        add('param/unknown-valued/' + f, ['#[enum_tools(%s%s(bogus = "x"))]' % (pre, f)])
        if has_nv:
            add('param/duplicate/' + f, ['#[enum_tools(%s%s(name = "a", name = "b"))]' % (pre, f)])
            add('param/duplicate-vis/' + f, ['#[enum_tools(%s%s(vis = "pub", vis = "pub"))]' % (pre, f)])
            add('param/wrong-kind/name-int/' + f, ['#[enum_tools(%s%s(name = 5))]' % (pre, f)])
            add('param/wrong-kind/name-flag/' + f, ['#[enum_tools(%s%s(name))]' % (pre, f)])
            add('param/wrong-kind/vis-int/' + f, ['#[enum_tools(%s%s(vis = 1))]' % (pre, f)])
            add('param/wrong-kind/vis-flag/' + f, ['#[enum_tools(%s%s(vis))]' % (pre, f)])
            add('param/vis-outside-list/' + f, ['#[enum_tools(%s%s(vis = "pub(super)"))]' % (pre, f)])
            add('param/vis-outside-list2/' + f, ['#[enum_tools(%s%s(vis = "pub "))]' % (pre, f)])
            add('param/twin/' + f, ['#[enum_tools(%s%s(name = "a", vis = "pub"))]' % (pre, f)], 'accept')
        else:
            add('param/twin/' + f, ['#[enum_tools(%s%s)]' % (pre, f)], 'accept')
        # parameters that are legal on a sibling feature but not on this one (the parameter list of every feature is closed)
        legal = set()
        if has_nv:
            legal |= {'name', 'vis'}
        if f in ('as_str', 'from_str', 'FromStr', 'iter'):
            legal.add('mode')
        if f in ('iter', 'names'):
            legal.add('struct_name')
        if f == 'sorted':
            legal |= {'name', 'value'}
        for pn, pv in [('name', '"a"'), ('vis', '"pub"'), ('vis', '""'), ('mode', '"auto"'), ('mode', '"table"'), ('struct_name', '"S"'), ('value', None), ('rename', '"x"')]:
            if pn in legal:
                continue
            add('param/sibling/%s/%s' % (f, pn), ['#[enum_tools(%s%s(%s))]' % (pre, f, pn if pv is None else '%s = %s' % (pn, pv))])
        # repetition of the feature, in one attribute and across attributes
        add('feature/repeated-same-attr/' + f, ['#[enum_tools(%s%s, %s)]' % (pre, f, f)])
        add('feature/repeated-across-attrs/' + f, ['#[enum_tools(%s%s)]' % (pre, f), '#[enum_tools(%s)]' % f])
        if f in ('as_str', 'from_str', 'FromStr', 'iter'):
            add('mode/unknown/' + f, ['#[enum_tools(%s(mode = "bogus"))]' % f])
            add('mode/empty/' + f, ['#[enum_tools(%s(mode = ""))]' % f])
            add('mode/case/' + f, ['#[enum_tools(%s(mode = "Table"))]' % f])
            add('mode/wrong-kind-int/' + f, ['#[enum_tools(%s(mode = 1))]' % f])
            add('mode/wrong-kind-flag/' + f, ['#[enum_tools(%s(mode))]' % f])
            add('mode/duplicate/' + f, ['#[enum_tools(%s(mode = "table", mode = "table"))]' % f])
            add('feature/repeated-different-modes/' + f, ['#[enum_tools(%s(mode = "table"))]' % f, '#[enum_tools(%s(mode = "auto"))]' % f])
            add('mode/twin/' + f, ['#[enum_tools(%s(mode = "table"))]' % f], 'accept')
        if f in ('iter', 'names'):
            add('param/wrong-kind/struct_name-int/' + f, ['#[enum_tools(%s(struct_name = 7))]' % f])
            add('param/wrong-kind/struct_name-flag/' + f, ['#[enum_tools(%s(struct_name))]' % f])
            add('param/duplicate-struct_name/' + f, ['#[enum_tools(%s(struct_name = "X", struct_name = "Y"))]' % f])
    add('sorted/flag-given-value', ['#[enum_tools(sorted(name = "x"))]'])
    add('sorted/flag-given-value2', ['#[enum_tools(sorted(value = true))]'])
    add('sorted/duplicate-flag', ['#[enum_tools(sorted(name, name))]'])
    add('sorted/repeated-across-attrs', ['#[enum_tools(sorted(name))]', '#[enum_tools(sorted(value))]'])
    add('sorted/twin', ['#[enum_tools(sorted(name, value))]'], 'accept')
    add('feature/unknown', ['#[enum_tools(bogus)]'])
    add('feature/unknown-with-params', ['#[enum_tools(bogus(name = "x"))]'])
    add('feature/unknown-case', ['#[enum_tools(As_str)]'])
    add('feature/unknown-among-known', ['#[enum_tools(into, bogus, MIN)]'])
    add('feature/unknown-second-attr', ['#[enum_tools(into)]', '#[enum_tools(bogus)]'])
    add('feature/internal-table-name', ['#[enum_tools(table_name)]'])
    add('feature/twin', ['#[enum_tools(into, MIN)]'], 'accept')
    # range / iter compatibility
    add('range/without-iter', ['#[enum_tools(range)]'])
    add('range/without-iter-others', ['#[enum_tools(range, names, next, next_back)]'])
    add('range/table_inline', ['#[enum_tools(range, iter(mode = "table_inline"))]'])
    add('range/table_inline-order', ['#[enum_tools(iter(mode = "table_inline"), range)]'])
    add('range/table_inline-split', ['#[enum_tools(iter(mode = "table_inline"))]', '#[enum_tools(range)]'])
    add('range/twin', ['#[enum_tools(range, iter(mode = "table"))]'], 'accept')
    for r, vs in [('i16', ['A = 1', 'B = 2', 'C = 9']), ('u8', ['A = 0', 'B = 255']), ('i64', ['A = -9223372036854775808', 'B = 0', 'C = 9223372036854775807']),
                  ('i128', ['A = -9223372036854775808', 'B = 9223372036854775807']), ('u64', ['A = 0', 'B = 2']), ('i8', ['A = -128', 'B = 127']),
                  ('i64', ['A = -3', 'B = -2', 'C = 9223372036854775807']), ('i64', ['A = -9223372036854775808', 'B = 0', 'C = 1'])]:
        add('iter-range-on-holes/%s' % r, ['#[enum_tools(iter(mode = "range"))]'], variants=vs, repr_=r)
        add('iter-range-on-holes+range/%s' % r, ['#[enum_tools(iter(mode = "range"), range)]'], variants=vs, repr_=r)
    add('iter-range/twin', ['#[enum_tools(iter(mode = "range"), range)]'], 'accept', variants=['A = 1', 'B = 2', 'C = 3'])
    # non-list forms
    add('form/bare-path', ['#[enum_tools]'])
    add('form/name-value', ['#[enum_tools = "into"]'])
    add('form/feature-name-value', ['#[enum_tools(into = "x")]'])
    add('form/feature-name-value-int', ['#[enum_tools(MIN = 1)]'])
    add('form/nested-list-param', ['#[enum_tools(as_str(mode("table")))]'])
    add('form/path-colons-feature', ['#[enum_tools(a::into)]'])
    add('form/path-colons-leading', ['#[enum_tools(::into)]'])
    add('form/path-colons-param', ['#[enum_tools(as_str(a::mode = "table"))]'])
    add('form/literal-feature', ['#[enum_tools("into")]'], owner='any')
    add('form/param-value-not-literal', ['#[enum_tools(as_str(mode = table))]'])
    add('form/param-value-const', ['#[enum_tools(as_str(name = NAME))]'])
    add('form/empty-list-twin', ['#[enum_tools()]'], 'accept')
    # legal spellings of legal configurations (must compile: a stricter parser would narrow the documented domain)
    add('spelling/empty-parameter-lists', ['#[enum_tools(as_str(), iter(), names(), MIN(), into(), Debug(), sorted())]'], 'accept')
    add('spelling/trailing-commas', ['#[enum_tools(as_str(mode = "table",), iter(mode = "table", struct_name = "S",), MIN,)]'], 'accept')
    add('spelling/raw-and-escaped-strings', ['#[enum_tools(as_str(mode = r"table"), from_str(mode = "ta\\x62le"), FromStr(mode = r#"match"#), MIN(name = r"LOW", vis = r"pub"), iter(mode = "\\u{74}able"))]'], 'accept')
    for i, perm in enumerate(itertools.permutations(['name = "a"', 'mode = "table"', 'vis = "pub"'])):
        add('spelling/parameter-order/%d' % i, ['#[enum_tools(as_str(%s))]' % ', '.join(perm)], 'accept')
    for i, perm in enumerate(itertools.permutations(['name = "a"', 'mode = "table"', 'vis = ""', 'struct_name = "S"'])):
        if i % 4 == 0:
            add('spelling/parameter-order-iter/%d' % i, ['#[enum_tools(iter(%s), range)]' % ', '.join(perm)], 'accept')
    add('spelling/six-attributes', ['#[enum_tools(as_str)]', '#[enum_tools(iter)]', '#[enum_tools()]', '#[enum_tools(MIN, MAX)]', '#[enum_tools(range)]', '#[enum_tools(names, sorted(name))]'], 'accept')
    add('spelling/attributes-around-derive-and-repr', ['#[enum_tools(as_str)]', '#[allow(dead_code)]', '#[enum_tools(iter)]', '/// doc', '#[enum_tools(MIN)]'], 'accept')
    # values that reach the attribute through a macro_rules fragment (wrapped in an invisible group)
    def via_macro(cls, frag, arg, attr, expect):
        n[0] += 1
        body = ['macro_rules! mk { ($m:%s) => { #[derive(Clone, Copy, EnumTools)] #[enum_tools(%s)] #[repr(u8)] pub enum E { A, B, C } } }' % (frag, attr), 'mk!(%s);' % arg]
        out.append(case('c13_%03d_macro' % n[0], 'C13', cls, body, expect, 'derive'))
    via_macro('form/param-value-ident-via-expr-fragment', 'expr', 'table', 'iter(mode = $m)', 'reject')
    via_macro('form/param-value-path-via-expr-fragment', 'expr', 'a::b', 'as_str(name = $m)', 'reject')
    via_macro('form/param-value-call-via-expr-fragment', 'expr', 'f()', 'as_str(mode = $m)', 'reject')
    via_macro('form/param-value-ident-via-tt-fragment', 'tt', 'table', 'iter(mode = $m)', 'reject')
    via_macro('form/param-value-literal-via-tt-fragment/twin', 'tt', '"table"', 'iter(mode = $m)', 'accept')
    # variant level
    def var(cls, vattr, expect='reject', owner='derive'):
        n[0] += 1
        out.append(case('c13_%03d_var' % n[0], 'C13', 'variant/' + cls, enum_src(['#[enum_tools(as_str, names)]'], 'u8', ['A', '%s B' % vattr, 'C']), expect, owner))
    var('rename-int', '#[enum_tools(rename = 5)]')
    var('rename-bytestr', '#[enum_tools(rename = b"x")]')
    var('rename-char', "#[enum_tools(rename = 'x')]")
    var('rename-bool', '#[enum_tools(rename = true)]')
    var('rename-float', '#[enum_tools(rename = 1.5)]')
    var('rename-flag', '#[enum_tools(rename)]')
    var('rename-list', '#[enum_tools(rename("x"))]')
    var('rename-ident-value', '#[enum_tools(rename = x)]')
    var('other-key', '#[enum_tools(name = "x")]')
    var('other-key-flag', '#[enum_tools(skip)]')
    var('bare', '#[enum_tools]')
    var('name-value', '#[enum_tools = "x"]')
    var('two-entries', '#[enum_tools(rename = "x", rename = "y")]')
    var('two-entries-mixed', '#[enum_tools(rename = "x", other)]')
    var('feature-at-variant', '#[enum_tools(as_str)]')
    var('path-colons', '#[enum_tools(a::rename = "x")]')
    # several enum_tools attributes on one variant: each must be validated on its own
    var('second-attr-invalid-flag', '#[enum_tools(rename = "x")] #[enum_tools(skip)]')
    var('second-attr-invalid-int', '#[enum_tools(rename = "x")] #[enum_tools(rename = 5)]')
    var('second-attr-invalid-key', '#[enum_tools(rename = "x")] #[enum_tools(alias = "y")]')
    var('second-attr-name-value', '#[enum_tools(rename = "x")] #[enum_tools = "y"]')
    var('first-attr-invalid', '#[enum_tools(skip)] #[enum_tools(rename = "x")]')
    var('invalid-between-foreign', '#[doc = "d"] #[enum_tools(rename = "x")] #[allow(unused)] #[enum_tools(other)]')
    var('twin', '#[enum_tools(rename = "x")]', 'accept')
    var('twin-with-foreign-attrs', '#[doc = "d"] #[enum_tools(rename = "x")] #[allow(unused)]', 'accept')
    var('twin-empty-string', '#[enum_tools(rename = "")]', 'accept')
    # variant attributes are validated whatever the enum-level features are: the renames are consumed by the string
    # features only, but the loop that reads them is also the only place that rejects malformed ones
    CTX = [('iter', ['iter']), ('range', ['range', 'iter']), ('next', ['next']), ('next_back', ['next_back']), ('min-max', ['MIN', 'MAX']),
           ('Into', ['Into']), ('into', ['into']), ('TryFrom', ['TryFrom']), ('try_from', ['try_from']), ('sorted-value', ['sorted(value)']),
           ('sorted-name', ['sorted(name)']), ('numeric-all', ['iter', 'range', 'next', 'next_back', 'MIN', 'MAX', 'Into', 'into', 'TryFrom', 'try_from']),
           ('as_str', ['as_str']), ('from_str', ['from_str']), ('FromStr', ['FromStr']), ('Debug', ['Debug']), ('Display', ['Display']),
           ('IntoStr', ['IntoStr']), ('names', ['names']), ('as_str-match', ['as_str(mode = "match")'])]
    BAD = [('flag', '#[enum_tools(skip)]'), ('rename-int', '#[enum_tools(rename = 5)]'), ('other-key', '#[enum_tools(name = "b")]'),
           ('bare', '#[enum_tools]'), ('second-attr-invalid', '#[enum_tools(rename = "x")] #[enum_tools(skip)]')]
    for cname, feats in CTX:
        attrs = ['#[enum_tools(%s)]' % ', '.join(feats)]
        for vpos, vs_of in (('middle', lambda a: ['A', '%s B' % a, 'C']), ('first', lambda a: ['%s A' % a, 'B', 'C']), ('last', lambda a: ['A', 'B', '%s C' % a])):
            for bname, battr in BAD:
                if vpos != 'middle' and bname not in ('flag', 'rename-int'):
                    continue
                n[0] += 1
                out.append(case('c13_%03d_varctx' % n[0], 'C13', 'variant-under/%s/%s/%s' % (cname, vpos, bname), enum_src(attrs, 'u8', vs_of(battr)), 'reject', 'derive'))
        n[0] += 1
        out.append(case('c13_%03d_varctx' % n[0], 'C13', 'variant-under/%s/twin' % cname, enum_src(attrs, 'u8', ['A', '#[enum_tools(rename = "B2")] B', 'C']), 'accept', 'derive'))
    return out

# ------------------------------------------------------------------------------------------------ C14
def c14_cases(tier):
    """all declaration orders of 2-, 3- and 4-variant enums under every sorted configuration"""
    out = []
    n = [0]
    # three families: explicit values; renamed so that name order is the inverse of identifier order; implicit-after-explicit
    fams = []
    for k in (2, 3, 4):
        ids = ['A', 'B', 'C', 'D'][:k]
        vals = [10, 20, 30, 40][:k]
        fams.append(('explicit%d' % k, [(i, v, None) for i, v in zip(ids, vals)]))
        # names inverted relative to identifiers AND values: name order Z < Y < X ...
        rn = ['zd', 'yc', 'xb', 'wa'][:k]
        fams.append(('renamed%d' % k, [(i, v, r) for i, v, r in zip(ids, vals, rn)]))
    fams.append(('negative3', [('A', -30, None), ('B', -2, None), ('C', 5, None)]))
    fams.append(('lowfirst2', [('A', -3, None), ('B', -2, None)]))
    fams.append(('minfirst2', [('A', -9223372036854775808, None), ('B', 0, None)]))
    fams.append(('equalnames3', [('A', 1, 'same'), ('B', 2, 'same'), ('C', 3, 'zz')]))
    fams.append(('prefixnames3', [('A', 1, 'a'), ('B', 2, 'ab'), ('C', 3, 'abc')]))
    fams.append(('case3', [('A', 1, 'B'), ('B', 2, 'a'), ('C', 3, 'b')]))     # byte-wise: 'B' < 'a' < 'b'
    fams.append(('emptyname3', [('A', 1, ''), ('B', 2, 'a'), ('C', 3, 'b')]))   # the empty name sorts first and is a name like any other
    fams.append(('emptyname1', [('A', 1, '')]))
    fams.append(('emptyname2dup', [('A', 1, ''), ('B', 2, '')]))
    fams.append(('rawnames3', [('A', 1, 'a'), ('B', 2, 'r#type'), ('C', 3, 's')]))         # 'r#type' is a name like any other: 'a' < 'r#type' < 's'
    fams.append(('rawidents3', [('a', 1, None), ('r#type', 2, None), ('s', 3, None)]))
    fams.append(('rawidents3b', [('r#as', 1, None), ('d', 2, None), ('Zeta', 3, None)]))
    fams.append(('maxvalue3', [('A', -1, None), ('B', 9223372036854775807, None), ('C', 3, None)]))
    fams.append(('maxfirst2', [('A', 9223372036854775807, None), ('B', 0, None)]))
    fams.append(('nearmax3', [('A', 9223372036854775806, None), ('B', 9223372036854775807, None), ('C', 9223372036854775805, None)]))
    fams.append(('numbered3', [('A', 1, 'V1'), ('B', 2, 'V2'), ('C', 3, 'V10')]))       # byte-wise 'V1' < 'V10' < 'V2': no natural-number order
    fams.append(('leadingzero2', [('A', 1, 'X01'), ('B', 2, 'X1')]))
    fams.append(('digits2', [('A', 1, '10'), ('B', 2, '9')]))
    fams.append(('nonascii3', [('A', 1, 'z'), ('B', 2, '\u00e4'), ('C', 3, 'Z')]))     # byte-wise UTF-8 order: 'Z' < 'z' < 'ä'
    for fam, vs in fams:
        for perm in itertools.permutations(range(len(vs))):
            order = [vs[i] for i in perm]
            by_value = all(order[i][1] < order[i + 1][1] for i in range(len(order) - 1))
            nm = [(o[2] if o[2] is not None else o[0]).encode('utf8') for o in order]
            by_name = all(nm[i] < nm[i + 1] for i in range(len(nm) - 1))
            # (the unconstrained declaration follows every sorted(..) one: whatever the parser remembers from the previous enum of the crate shows)
            for cfg, ok in (('sorted(value)', by_value), (None, True), ('sorted(name)', by_name), (None, True), ('sorted(name, value)', by_name and by_value), (None, True),
                            ('sorted(value, name)', by_name and by_value), ('sorted', True), (None, True)):
                n[0] += 1
                attrs = ['#[enum_tools(into, %s)]' % cfg] if cfg else ['#[enum_tools(into)]']
                variants = [('%s%s = %d' % (('#[enum_tools(rename = "%s")] ' % o[2]) if o[2] is not None else '', o[0], o[1])) for o in order]
                out.append(case('c14_%04d' % n[0], 'C14', '%s/%s' % (fam, cfg), enum_src(attrs, 'i64', variants), 'accept' if ok else 'reject', 'derive',
                                note='order=%s by_value=%s by_name=%s' % ([o[0] for o in order], by_value, by_name)))
    # what the parser remembers from the previous enum: in the crate of accept cases an unconstrained, unsorted declaration directly
    # follows a declaration that was checked under sorted(name, value) (and under each single flag)
    for fam, vs in fams:
        if len(vs) < 2:
            continue
        srt = sorted(vs, key=lambda o: o[1])
        nm = [(o[2] if o[2] is not None else o[0]).encode('utf8') for o in srt]
        if not all(nm[i] < nm[i + 1] for i in range(len(nm) - 1)):
            continue                      # no order of this family is sorted by both
        def variants_of(order):
            return [('%s%s = %d' % (('#[enum_tools(rename = "%s")] ' % o[2]) if o[2] is not None else '', o[0], o[1])) for o in order]
        for cfg in ('sorted(name, value)', 'sorted(value)', 'sorted(name)'):
            n[0] += 1
            out.append(case('c14_%04d' % n[0], 'C14', '%s/after-%s/first' % (fam, cfg), enum_src(['#[enum_tools(into, %s)]' % cfg], 'i64', variants_of(srt)), 'accept', 'derive'))
            n[0] += 1
            out.append(case('c14_%04d' % n[0], 'C14', '%s/after-%s/unconstrained' % (fam, cfg), enum_src(['#[enum_tools(into)]'], 'i64', variants_of(srt[::-1])), 'accept', 'derive',
                            note='reversed order, no sorted feature: must compile whatever was derived before'))
    # implicit discriminants: A, B=5, C (=6), D=1  etc.
    impl = [
        (['A', 'B', 'C'], True, True), (['B', 'A', 'C'], True, False), (['A = 5', 'B', 'C = 1'], False, True), (['A = 5', 'B', 'C = 7'], True, True),
        (['A = 5', 'B', 'C = 6'], False, True),     # duplicate value 6 -> rejected by rustc too
        (['A = 5', 'C = 0', 'D'], False, True), (['A = -2', 'B', 'C'], True, True), (['C = -2', 'B', 'A'], True, False),
        (['A = 3', 'B = 2', 'C'], False, True),    # C = 3 duplicates A: rejected
        (['A = 3', 'B = 1', 'C'], False, True),    # values 3,1,2 : not sorted
    ]
    for vs, by_value, by_name in impl:
        for cfg, ok in (('sorted(value)', by_value), ('sorted(name)', by_name), ('sorted(name, value)', by_value and by_name)):
            n[0] += 1
            dup = vs in (['A = 5', 'B', 'C = 6'], ['A = 3', 'B = 2', 'C'])
            out.append(case('c14_%04d' % n[0], 'C14', 'implicit/%s' % cfg, enum_src(['#[enum_tools(into, %s)]' % cfg], 'i64', vs), 'reject' if (dup or not ok) else 'accept', 'any' if dup else 'derive', note=' '.join(vs)))
    # every way of mixing implicit and explicit discriminants: 3 variants over {implicit, -2, 0, 1, 2, 5}, 4 variants over {implicit, -1, 3}
    # (the value of an implicit variant is the compiler's: previous + 1, 0 for the first)
    for k, alphabet in ((3, (None, -2, 0, 1, 2, 5)), (4, (None, -1, 3))):
        for spec in itertools.product(alphabet, repeat=k):
            vals = []
            last = -1
            for x in spec:
                last = last + 1 if x is None else x
                vals.append(last)
            if len(set(vals)) != len(vals):
                continue            # duplicate discriminants: rustc's own error, not this property
            by_value = all(a < b for a, b in zip(vals, vals[1:]))
            ids = ['A', 'B', 'C', 'D'][:k]
            vs = ['%s%s' % (i, '' if x is None else ' = %d' % x) for i, x in zip(ids, spec)]
            for cfg, ok in (('sorted(value)', by_value), ('sorted(value, name)', by_value)):
                n[0] += 1
                out.append(case('c14_%04d' % n[0], 'C14', 'mixed-implicit%d/%s' % (k, cfg), enum_src(['#[enum_tools(into, %s)]' % cfg], 'i64', vs), 'accept' if ok else 'reject', 'derive', note=' '.join(vs)))
    return out

def render_batch(cases):
    """-> (source text, {module name: case}, line index: line number -> module)"""
    lines = ['#![allow(dead_code, unused_imports, non_camel_case_types, non_snake_case, non_upper_case_globals, unused_macros)]']
    index = {}
    for c in cases:
        start = len(lines) + 1
        lines.append('pub mod %s {' % c['id'])
        lines += (HDR[1:] if c.get('with_prelude') else HDR)    # tool attributes (#[rustfmt::skip]) need the tool prelude
        lines += ['    ' + l for l in c['body']]
        lines.append('}')
        for ln in range(start, len(lines) + 1):
            index[ln] = c['id']
    return '\n'.join(lines) + '\n', index

# ------------------------------------------------------------------------------------------------ C19 / C15 compile-time ascriptions
ALLF = 'as_str, from_str, into, MAX, MIN, next, next_back, try_from, Debug, Display, FromStr, Into, IntoStr, TryFrom, names, range'

def c19_cases(tier):
    """accept witnesses: const contexts, fn-pointer ascriptions, trait-bound assertions - for every iter mode and shape.
    reject twin: a const context that must NOT compile if `into` were not const is not expressible; instead each accept
    case has a sibling that differs by one wrong ascription and must be rejected by rustc (so the ascriptions bite)."""
    out = []
    n = [0]
    shapes = [('gapless', 'i8', ['A = -1', 'B = 0', 'C = 1']), ('holes', 'u32', ['A = 1', 'B = 2', 'C = 9']), ('single', 'i64', ['A = 7']), ('wide', 'u128', ['A = 0', 'B = 1'])]
    for shape, r, vs in shapes:
        modes = ['auto', 'range', 'next_and_back', 'table', 'table_inline'] if shape != 'holes' else ['auto', 'next_and_back', 'table', 'table_inline']
        for im in modes:
            for sm in ('match', 'table'):
                feats = ALLF if im != 'table_inline' else ALLF.replace(', range', '')
                it = 'iter' if im == 'auto' else 'iter(mode = "%s")' % im
                attrs = ['#[enum_tools(%s, %s)]' % (feats.replace('as_str', 'as_str(mode = "%s")' % sm).replace('from_str,', 'from_str(mode = "%s"),' % sm).replace('FromStr,', 'FromStr(mode = "%s"),' % sm), it)]
                first = vs[0].split(' = ')[0]
                probes = [
                    'const X: %s = E::%s.into();' % (r, first), 'static Y: %s = E::%s.into();' % (r, first), 'const ARR: [u8; (E::%s.into() as i128 - E::%s.into() as i128 + 1) as usize] = [0];' % (first, first),
                    'const fn in_const_fn(e: E) -> %s { e.into() }' % r,
                    'const M0: E = E::MIN; const M1: E = E::MAX;',
                    'const P_INTO: fn(E) -> %s = E::into;' % r,
                    'const P_NEXT: fn(E) -> ::core::option::Option<E> = E::next; const P_PREV: fn(E) -> ::core::option::Option<E> = E::next_back;',
                    'const P_TRY: fn(%s) -> ::core::option::Option<E> = E::try_from;' % r,
                    'const P_FROM_STR: fn(&str) -> ::core::option::Option<E> = E::from_str;',
                    "const P_AS_STR: fn(E) -> &'static str = E::as_str;",
                    'const P_ITER: fn() -> EIter = E::iter; const P_NAMES: fn() -> ENames = E::names;',
                    'fn assert_iter<T: ::core::iter::Iterator<Item = I> + ::core::iter::DoubleEndedIterator + ::core::iter::ExactSizeIterator + ::core::iter::FusedIterator, I>() {}',
                    "fn asserts() { assert_iter::<EIter, E>(); assert_iter::<ENames, &'static str>(); }",
                    'fn assert_traits<T: ::core::convert::TryFrom<%s, Error = ()> + ::core::str::FromStr<Err = ()> + ::core::fmt::Debug + ::core::fmt::Display + ::core::marker::Copy>() {}' % r,
                    'fn asserts2() { assert_traits::<E>(); }',
                    "fn assert_from<A, B: ::core::convert::From<A>>() {} fn asserts3() { assert_from::<E, %s>(); assert_from::<E, &'static str>(); }" % r,
                ]
                if im != 'table_inline':
                    probes.append('const P_RANGE: fn(E, E) -> EIter = E::range;')
                n[0] += 1
                body = enum_src(attrs, r, vs) + probes
                out.append(case('c19_%03d' % n[0], 'C19', 'ascriptions/%s/%s/%s' % (shape, im, sm), body, 'accept'))
                # biting twin: one wrong ascription must be rejected (by rustc)
                n[0] += 1
                wrong = ['const P_WRONG: fn(E) -> ::core::result::Result<E, ()> = E::next;']
                out.append(case('c19_%03d' % n[0], 'C19', 'ascriptions-bite/%s/%s/%s' % (shape, im, sm), enum_src(attrs, r, vs) + wrong, 'reject', 'any'))
    return out

def c15_cases(tier):
    """privacy witnesses: helper items and struct fields are not reachable from a sibling module (reject, rustc's own
    privacy errors), requested items are reachable where the requested visibility says so (accept twins)."""
    out = []
    n = [0]
    def add(cls, inner, probe, expect, owner='any'):
        n[0] += 1
        body = ['pub mod def {', '    #![no_implicit_prelude]', '    use ::enum_tools::EnumTools;'] + ['    ' + l for l in inner] + ['}', 'pub mod user {', '    use super::def::*;'] + ['    ' + l for l in probe] + ['}']
        out.append(case('c15_%03d' % n[0], 'C15', cls, body, expect, owner))
    for shape, vs in (('gapless', ['A', 'B', 'C']), ('holes', ['A = 1', 'B = 2', 'C = 9'])):
        e_iter = enum_src(['#[enum_tools(iter(mode = "next_and_back"), range, Debug, FromStr(mode = "table"), TryFrom, names)]'], 'u8', vs)
        # helpers pulled in: __next, __next_back, __MIN, __MAX, __as_str, __NAME, (__ENUM / __RANGES)
        for helper, use in [('__next', 'let _ = E::A.__next();'), ('__next_back', 'let _ = E::A.__next_back();'), ('__MIN', 'let _ = E::__MIN;'), ('__MAX', 'let _ = E::__MAX;'),
                            ('__as_str', 'let _ = E::A.__as_str();'), ('__NAME', 'let _ = E::__NAME;')] + ([('__RANGES', 'let _ = E::__RANGES;'), ('__ENUM', 'let _ = E::__ENUM;')] if shape == 'holes' else []):
            add('helper-private/%s/%s' % (shape, helper), e_iter, ['pub fn probe() { %s }' % use], 'reject')
        add('field-private/%s/fwd' % shape, e_iter, ['pub fn probe() { let it = E::iter(); let _ = it.fwd; }'], 'reject')
        add('field-private/%s/len' % shape, e_iter, ['pub fn probe() { let it = E::iter(); let _ = it.len; }'], 'reject')
        add('field-private/%s/names-inner' % shape, e_iter, ['pub fn probe() { let it = E::names(); let _ = it.inner; }'], 'reject')
        add('requested-public/%s/twin' % shape, e_iter, ['pub fn probe() { let _ = E::iter(); let _ = E::names(); let _ = E::range(E::A, E::C); let _: EIter = E::iter(); }'], 'accept')
        # vis = "" on a pub enum: private; vis = "pub(crate)": visible in the crate
        e_vis = enum_src(['#[enum_tools(next(vis = ""), next_back(vis = "pub(crate)"), into(vis = "pub"), MIN(vis = "", name = "LOWEST"), as_str(name = "label"))]'], 'u8', vs)
        add('vis-empty-is-private/%s' % shape, e_vis, ['pub fn probe() { let _ = E::A.next(); }'], 'reject')
        add('vis-empty-const-is-private/%s' % shape, e_vis, ['pub fn probe() { let _ = E::LOWEST; }'], 'reject')
        add('name-replaces-default/%s/MIN' % shape, e_vis, ['pub fn probe() { let _ = E::MIN; }'], 'reject')
        add('name-replaces-default/%s/as_str' % shape, e_vis, ['pub fn probe() { let _ = E::A.as_str(); }'], 'reject')
        add('vis-crate-and-pub/%s/twin' % shape, e_vis, ['pub fn probe() { let _ = E::A.next_back(); let _ = E::A.into(); let _ = E::A.label(); }'], 'accept')
        e_priv = enum_src(['#[enum_tools(next, iter(struct_name = "Walk"), names(struct_name = "Labels", vis = "pub"))]'], 'u8', vs)
        add('struct_name/%s/twin' % shape, e_priv, ['pub fn probe() { let _: Walk = E::iter(); let _: Labels = E::names(); }'], 'accept')
        add('struct_name-default-gone/%s' % shape, e_priv, ['pub fn probe() { let _: EIter = E::iter(); }'], 'reject')
        # parameter values are string *values*: raw strings and escapes name the same items and visibilities as plain literals
        e_raw = enum_src(['#[enum_tools(next(vis = r"pub(crate)", name = r#"succ"#), MIN(name = "F\\x49RST", vis = "pu\\u{62}"), iter(struct_name = r#"Walk"#, vis = r"pub"), as_str(vis = "pub(cr\\x61te)", name = "la\\x62el"), names(struct_name = "L\\u{61}bels"))]'], 'u8', vs)
        add('string-values/%s/twin' % shape, e_raw, ['pub fn probe() { let _ = E::A.succ(); let _ = E::FIRST; let _: Walk = E::iter(); let _ = E::A.label(); let _: Labels = E::names(); }'], 'accept')
        add('string-values/%s/default-name-gone' % shape, e_raw, ['pub fn probe() { let _ = E::A.next(); }'], 'reject')
    return out

# ------------------------------------------------------------------------------------------------ mutations of random supported instances
def _base(rr, max_n=12):
    """a random supported (declaration, configuration) at module level, small enough to read in a report"""
    from . import instances as I
    while True:
        d, c = I.random_instance(rr)
        if d['n'] <= max_n and not d.get('context') and 'MOD' not in (d['vis'] or ''):
            c = dict(c); c['features'] = [(f, dict(p)) for f, p in c['features']]
            return d, c

def mixed_c13(n, seed):
    """one malformation of the configuration of a random supported instance: must be rejected by the derive;
    every 8th case is the unmutated base and must compile"""
    import random
    from . import decls as D
    rr = random.Random(seed * 104729 + 13)
    out = []
    muts = ['unknown-param', 'unknown-valued-param', 'dup-feature', 'dup-feature-other-attr', 'bogus-mode', 'dup-param', 'unknown-feature', 'vis-outside', 'sibling-param',
            'range-without-iter', 'range-table_inline', 'iter-range-on-holes', 'variant-attr']
    k = 0
    while len(out) < n:
        d, c = _base(rr)
        k += 1
        feats = c['features']
        real = [i for i, (f, p) in enumerate(feats) if f != 'sorted']
        if not real:
            continue
        if k % 8 == 0:
            out.append(case('c13_mix_%04d' % k, 'C13', 'mix/twin', D.render_enum(d, c), 'accept')); continue
        m = rr.choice(muts)
        i = rr.choice(real)
        f, p = feats[i]
        extra_attr = None
        if m == 'unknown-param':
            p['bogus'] = True
        elif m == 'unknown-valued-param':
            p['bogus'] = 'x'
        elif m == 'dup-feature':
            feats.insert(rr.randrange(len(feats) + 1), (f, {}))
        elif m == 'dup-feature-other-attr':
            extra_attr = '#[enum_tools(%s)]' % f
        elif m == 'bogus-mode':
            cand = [j for j in real if feats[j][0] in D.MODED]
            if not cand:
                continue
            feats[rr.choice(cand)][1]['mode'] = rr.choice(['bogus', '', 'Table', 'MATCH', 'auto ', 'range '])
        elif m == 'dup-param':
            cand = [j for j in real if feats[j][1]]
            if not cand:
                continue
            j = rr.choice(cand); key = rr.choice(sorted(feats[j][1]))
            extra_attr = ('dup', j, key)
        elif m == 'unknown-feature':
            feats.insert(rr.randrange(len(feats) + 1), (rr.choice(['bogus', 'Iter', 'as_Str', 'min', 'table_name', 'table_enum', 'table_range', 'rename']), {}))
        elif m == 'vis-outside':
            cand = [j for j in real if feats[j][0] in D.HAS_NAME_VIS]
            if not cand:
                continue
            feats[rr.choice(cand)][1]['vis'] = rr.choice(['pub(super)', 'pub(self)', 'pub(in crate)', 'crate', 'pub ', 'private', 'PUB'])
        elif m == 'sibling-param':
            cand = [(j, pn) for j in real for pn in ('name', 'vis', 'mode', 'struct_name')
                    if not ((pn in ('name', 'vis') and feats[j][0] in D.HAS_NAME_VIS) or (pn == 'mode' and feats[j][0] in D.MODED) or (pn == 'struct_name' and feats[j][0] in D.HAS_STRUCT_NAME))]
            if not cand:
                continue
            j, pn = rr.choice(cand)
            feats[j][1][pn] = {'name': 'a', 'vis': 'pub', 'mode': 'auto', 'struct_name': 'S'}[pn]
        elif m == 'range-without-iter':
            fs = [x for x in feats if x[0] not in ('iter', 'range')]
            feats[:] = fs + [('range', {})]
        elif m == 'range-table_inline':
            fs = [x for x in feats if x[0] not in ('iter', 'range')]
            feats[:] = fs + [('iter', {'mode': 'table_inline'}), ('range', {})]
            rr.shuffle(feats)
        elif m == 'iter-range-on-holes':
            if d['gapless']:
                continue
            fs = [x for x in feats if x[0] != 'iter']
            feats[:] = fs + [('iter', {'mode': 'range'})]
        elif m == 'variant-attr':
            v = rr.choice(d['variants'])
            v['attrs'] = list(v.get('attrs', [])) + [rr.choice(['#[enum_tools(skip)]', '#[enum_tools(rename = 5)]', '#[enum_tools]', '#[enum_tools(rename)]', '#[enum_tools(name = "x")]', '#[enum_tools = "x"]', '#[enum_tools(rename = "a", rename = "b")]'])]
        lines = D.render_enum(d, c)
        if isinstance(extra_attr, str):
            at = max(i for i, l in enumerate(lines) if l.startswith('#[')) + 1
            lines.insert(at, extra_attr)
        elif isinstance(extra_attr, tuple):
            # repeat one parameter inside its feature's parameter list
            _, j, key = extra_attr
            fj, pj = feats[j]
            val = pj[key]
            one = key if val is True else '%s = %s' % (key, D.rust_str(val))
            old = '%s(' % fj
            done = False
            for li, l in enumerate(lines):
                if l.startswith('#[enum_tools(') and (old + one) in l or (old in l and one in l and not done):
                    pos = l.find(old)
                    if pos >= 0:
                        lines[li] = l[:pos + len(old)] + one + ', ' + l[pos + len(old):]; done = True; break
            if not done:
                continue
        out.append(case('c13_mix_%04d' % k, 'C13', 'mix/' + m, lines, 'reject', 'derive', note='random supported instance with one malformation'))
    return out

def mixed_c12(n, seed):
    import random
    from . import decls as D
    rr = random.Random(seed * 15485863 + 12)
    out = []
    muts = ['expr', 'field', 'no-repr', 'dup-repr', 'repr-C', 'above-i64', 'below-i64', 'struct', 'no-attr-expr']
    EXPRS = ['K', '1 + 1', '(7)', '7 as $R', '- -7', '-(7)', '!0', '{ 7 }', 'f()', 'seven!()', 'if true { 7 } else { 8 }', 'const { 7 }', "b'a'", '7 << 1', 'i8::MAX as $R', '$R::MAX', '0 + 7']
    k = 0
    while len(out) < n:
        d, c = _base(rr, max_n=6)
        k += 1
        if k % 8 == 0:
            out.append(case('c12_mix_%04d' % k, 'C12', 'mix/twin', D.render_enum(d, c), 'accept')); continue
        m = rr.choice(muts)
        pre = ['pub const K: %s = 7;' % d['repr'], 'pub const fn f() -> %s { 7 }' % d['repr'], 'macro_rules! seven { () => { 7 } }']
        owner = 'derive'
        v = rr.choice(d['variants'])
        if m in ('expr', 'no-attr-expr'):
            v['lit'] = rr.choice(EXPRS).replace('$R', d['repr'])
            if v['lit'] == "b'a'":
                owner = 'any'
            if m == 'no-attr-expr':
                c = dict(c); c['features'] = []
        elif m == 'field':
            v['ident'] = v['ident'] + rr.choice(['(u8)', ' { x: u8 }', '()', ' {}'])
        elif m == 'above-i64':
            if D.repr_bits(d['repr']) < 64 or (D.repr_bits(d['repr']) == 64 and D.repr_signed(d['repr'])):
                continue
            v['lit'] = rr.choice(['9223372036854775808', '0x8000_0000_0000_0000', '18446744073709551615'])
        elif m == 'below-i64':
            if d['repr'] != 'i128':
                continue
            v['lit'] = '-9223372036854775809'
        lines = D.render_enum(d, c)
        if m == 'no-repr':
            lines = [l for l in lines if not l.startswith('#[repr(')]
        elif m == 'dup-repr':
            i = next(i for i, l in enumerate(lines) if l.startswith('#[repr('))
            lines.insert(i, lines[i]); owner = 'any'
        elif m == 'repr-C':
            lines = [('#[repr(C)]' if l.startswith('#[repr(') else l) for l in lines]
        elif m == 'struct':
            i = next(i for i, l in enumerate(lines) if ' enum ' in l or l.startswith('enum '))
            lines = [l for l in lines[:i] if not l.startswith('#[repr(')] + [rr.choice(['pub struct S { x: u8 }', 'pub struct S(u8);', 'pub struct S;', '#[repr(C)] pub union U { x: u8, y: u16 }'])]
        out.append(case('c12_mix_%04d' % k, 'C12', 'mix/' + m, pre + lines, 'reject', owner, note='random supported instance with one out-of-domain change'))
    return out

def mixed_c14(n, seed):
    """random small declarations under random sorted configurations; oracle = sortedness of the declaration order"""
    import random
    from . import decls as D
    rr = random.Random(seed * 32452843 + 14)
    out = []
    k = 0
    while len(out) < n:
        d, c = _base(rr, max_n=7)
        k += 1
        c = dict(c); c['features'] = [(f, p) for f, p in c['features'] if f != 'sorted']
        decl_vals = [v['value'] for v in d['variants']]
        nm = [D.decl_name(d, v).encode('utf8') for v in d['variants']]
        by_value = all(a < b for a, b in zip(decl_vals, decl_vals[1:]))
        by_name = all(a < b for a, b in zip(nm, nm[1:]))
        sp, ok = rr.choice([({'value': True}, by_value), ({'name': True}, by_name), ({'name': True, 'value': True}, by_name and by_value), ({'value': True, 'name': True}, by_name and by_value), ({}, True)])
        c['features'] = c['features'] + [('sorted', sp)]
        rr.shuffle(c['features'])
        out.append(case('c14_mix_%04d' % k, 'C14', 'mix/sorted(%s)/%s' % (','.join(sp), 'sorted' if ok else 'unsorted'), D.render_enum(d, c), 'accept' if ok else 'reject', 'derive',
                        note='by_value=%s by_name=%s' % (by_value, by_name)))
    return out
