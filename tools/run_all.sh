#!/bin/bash
# usage: tools/run_all.sh [ids...]   runs the quick checks (all 19 by default) in parallel; prints one line per check
cd "$(dirname "$0")/.."
IDS="$@"; [ -z "$IDS" ] && IDS="C11 C01 C02 C03 C04 C05 C06 C07 C08 C09 C10 C12 C13 C14 C15 C16 C17 C18 C19"
OUT=$(mktemp -d)
# the first one builds the shared instance stage; the rest run in parallel
first=$(echo $IDS | cut -d' ' -f1)
./check $first --tier ${TIER:-quick} > $OUT/$first.log 2>&1; echo $? > $OUT/$first.rc
echo $IDS | tr ' ' '\n' | tail -n +2 | xargs -P ${P:-6} -I{} sh -c "./check {} --tier ${TIER:-quick} > $OUT/{}.log 2>&1; echo \$? > $OUT/{}.rc"
for i in $IDS; do
  rc=$(cat $OUT/$i.rc)
  n=$(grep -c '^VIOLATION' $OUT/$i.log)
  rules=$(grep -A1 '^VIOLATION' $OUT/$i.log | grep 'rule=' | sed 's/ instances=.*//; s/^ *//' | sort | uniq -c | sort -rn | head -4 | awk '{printf "%s x%s; ", $2" "$3" "$4, $1}')
  err=$(grep -c '^CHECKER-ERROR' $OUT/$i.log)
  echo "$i rc=$rc violations=$n errors=$err  $rules"
done
[ -n "$KEEP" ] && echo "logs: $OUT" || rm -rf $OUT
