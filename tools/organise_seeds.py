#!/usr/bin/env python3
"""Builds seeded/<id>/ (patch.diff, demonstration, meta.json) from the confirmed incoming changes, the independent
validation results and the detection matrix, and writes seeded/README.md."""
import json, os, shutil, glob, sys
HERE = os.path.dirname(os.path.dirname(os.path.abspath(__file__)))
matrix = json.load(open(os.path.join(HERE, 'seeded', 'matrix.json')))
rows = []
OOD = json.load(open(os.path.join(HERE, 'seeded', 'out_of_domain.json')))['seeds']
SCREEN = json.load(open(os.path.join(HERE, 'seeded', 'screening.json'))) if os.path.exists(os.path.join(HERE, 'seeded', 'screening.json')) else {}
ood_rows = []
for rnd, incname in ((1, '_incoming'), (2, '_incoming2'), (3, '_incoming3'), (4, '_incoming4'), (5, '_incoming5'), (6, '_incoming6'), (7, '_incoming7')):
    INC = os.path.join(HERE, 'seeded', incname)
    if not os.path.exists(os.path.join(INC, 'validation.json')):
        continue
    val = json.load(open(os.path.join(INC, 'validation.json')))
    for key in sorted(val):
        v = val[key]
        prop, k = key.split('/')
        src = os.path.join(INC, prop, k)
        sid = '%s-%d' % (prop, int(k) + 3 * (rnd - 1))
        dst = os.path.join(HERE, 'seeded', sid)
        mkey = key + ('' if rnd == 1 else '#%d' % rnd)
        if not v.get('confirmed'):
            print('not confirmed, skipped:', incname, key)
            continue
        os.makedirs(dst, exist_ok=True)
        shutil.copy(os.path.join(src, 'patch.diff'), os.path.join(dst, 'patch.diff'))
        demo = None
        for d in ('demo.rs', 'demo.sh'):
            if os.path.exists(os.path.join(src, d)):
                shutil.copy(os.path.join(src, d), os.path.join(dst, d)); demo = d
        am = {}
        try:
            am = json.load(open(os.path.join(src, 'meta.json')))
        except Exception:
            pass
        row = matrix.get(mkey, {})
        caught = sorted(c for c, r in row.items() if isinstance(r, dict) and not c.startswith('_') and r.get('rc') == 1)
        own = prop in caught
        screened = (not row) and SCREEN.get(mkey, {}).get('own_check_reports_it')
        if screened:
            own = True; caught = [prop + ' (own check only; the other checks were not run on this change)']
        elif row.get('_own_check_only') and own:
            caught = [prop + ' (own check only; the other checks were not run on this change)']
        meta = {
            'id': sid, 'property': prop, 'round': rnd, 'source': 'independent sub-agent given only the property text and a scratch worktree of /repo' + (' (round %d: told which ideas were already used, asked for different ones)' % rnd if rnd > 1 else ''),
            'summary': am.get('summary'), 'needs_to_manifest': am.get('needs_to_manifest'), 'files_touched': am.get('files_touched'),
            'demonstration': demo, 'how_to_run_demo': am.get('how_to_run_demo'),
            'confirmed_here': {'what_was_run': 'tools/validate_seeds.py in a scratch worktree: git apply; cargo test --workspace --no-fail-fast --offline; demonstration with and without the patch',
                               'suite_with_patch': v.get('suite'), 'demo_exit_with_patch': v.get('demo_with'), 'demo_exit_without_patch': v.get('demo_without')},
            'detection': {'what_was_run': 'tools/matrix.py: patch applied to a scratch worktree, all 19 quick checks run against it (VERIF_REPO)',
                          'caught_by': caught, 'caught_by_own_property_check': own,
                          'rules': {c: row[c].get('rules') for c in caught if c in row}, 'row_computed_at': row.get('_at')},
        }
        json.dump(meta, open(os.path.join(dst, 'meta.json'), 'w'), indent=1, ensure_ascii=False)
        if mkey in OOD:
            meta['out_of_domain'] = OOD[mkey]
            json.dump(meta, open(os.path.join(dst, 'meta.json'), 'w'), indent=1, ensure_ascii=False)
            ood_rows.append((sid, OOD[mkey], caught))
            continue
        rows.append((sid, prop, (am.get('summary') or '')[:150].replace('\n', ' ').replace('|', '/'), caught, own))
with open(os.path.join(HERE, 'seeded', 'README.md'), 'w') as f:
    f.write('# Seeded changes and which checks report them\n\n')
    f.write('%d changes produced by independent sub-agents (one per property and round, three changes each; from round 2 on the agents were told which ideas the earlier rounds had used)' % len(rows) + ', each confirmed here: with the patch the\nrepository\'s suite passes and the demonstration fails, without it the demonstration passes. `caught by` lists every quick\ncheck that exits 1 on the patched tree (matrix.json has rule names and counts). None of these patches is ever committed to /repo.\n\n')
    f.write('| seed | summary | caught by own check | caught by |\n|---|---|---|---|\n')
    for sid, prop, summ, caught, own in rows:
        f.write('| %s | %s | %s | %s |\n' % (sid, summ, 'yes' if own else '**no**', ' '.join(caught)))
    f.write('\n## Outside the property\'s domain (seeded/out_of_domain.json has the argument)\n\n| seed | why | checks that report it anyway |\n|---|---|---|\n')
    for sid, why, caught in ood_rows:
        f.write('| %s | %s | %s |\n' % (sid, why, ' '.join(caught) or 'none'))
    f.write('\n## Reverted fixes (seeded/_revert)\n\n| patch | caught by |\n|---|---|\n')
    for key in sorted(matrix):
        if key.startswith('F'):
            row = matrix[key]
            f.write('| %s | %s |\n' % (key, ' '.join(sorted(c for c, r in row.items() if isinstance(r, dict) and not c.startswith('_') and r.get('rc') == 1))))
    f.write('\n## Negative controls (seeded/_negative): behaviour-preserving edits, every check must stay silent\n\n'
            'N* were written with the checks; R_* (57) and S_* (31) are refactors by independent sub-agents (DESIGN.md section 8), each confirmed to pass the\n'
            'suite and its own equivalence demonstration with and without the patch. `row computed at` is the commit of /verif whose checks were run; R_ rows that\n'
            'show an alarm were computed before the repair named in DESIGN.md and re-run afterwards (the later row replaces the earlier one where it exists).\n\n'
            '| patch | checks that raised anything | row computed at |\n|---|---|---|\n')
    neg = sorted(os.path.basename(p)[:-5] for p in glob.glob(os.path.join(HERE, 'seeded', '_negative', '*.diff')))
    for key in neg:
        row = matrix.get(key)
        if not row:
            f.write('| %s | (all-checks row not computed; silent under its own property\'s check, C02 and C16 when it was screened) | |\n' % key); continue
        noisy = sorted(c for c, r in row.items() if isinstance(r, dict) and not c.startswith('_') and r.get('rc') != 0)
        f.write('| %s | %s | %s |\n' % (key, ' '.join(noisy) or 'none', (row.get('_at') or {}).get('verif', 'earlier')))
    unrec = sorted(os.path.basename(p)[:-5] for p in glob.glob(os.path.join(HERE, 'seeded', '_unrecognised', '*.diff')))
    f.write('\n## Behaviour-preserving refactors that still raise `unrecognised` (seeded/_unrecognised)\n\nIdioms the rule language does not know (DESIGN.md section 8); reported as "cannot decide", never as a wrong verdict: %s\n' % ', '.join(unrec))
print(len(rows), 'seeds organised; not caught by own check:', [r[0] for r in rows if not r[4]], 'caught by none:', [r[0] for r in rows if not r[3]])
