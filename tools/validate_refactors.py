#!/usr/bin/env python3
"""Confirms each behaviour-preserving refactor (seeded/_refactor/<Cxx>/<k>/) independently in a scratch worktree: the patch applies, the
repository's suite passes with it, and its own equivalence demonstration passes both with and without it.  Confirmed ones are copied to
seeded/_negative/R_<Cxx>_<k>.diff so that tools/matrix.py treats them as negative controls."""
import json, os, subprocess, sys, glob, shutil
WT = '/tmp/seedwt'
INC = os.environ.get('REFAC_INC', '/verif/seeded/_refactor')
OUT = os.path.join(INC, 'validation.json')
env = dict(os.environ, CARGO_NET_OFFLINE='true', CARGO_TARGET_DIR=WT + '-target')

def sh(cmd, cwd=WT, timeout=1800):
    p = subprocess.run(cmd, cwd=cwd, shell=True, stdout=subprocess.PIPE, stderr=subprocess.STDOUT, text=True, env=env, timeout=timeout)
    return p.returncode, p.stdout

def clean():
    sh('git checkout -q -- . && git clean -fdq')

def suite():
    rc, out = sh('cargo test --workspace --no-fail-fast --offline 2>&1')
    passed = failed = 0
    for l in out.splitlines():
        if l.startswith('test result:'):
            w = l.split(); passed += int(w[3]); failed += int(w[5])
    return rc, passed, failed, ('warning' in out)

def demo(d, tag):
    if os.path.exists(os.path.join(d, 'demo.rs')):
        shutil.copy(os.path.join(d, 'demo.rs'), os.path.join(WT, 'tests', 'demo_%s.rs' % tag))
        rc, out = sh('cargo test --offline --test demo_%s 2>&1' % tag)
        os.remove(os.path.join(WT, 'tests', 'demo_%s.rs' % tag))
        return rc, out[-800:]
    if os.path.exists(os.path.join(d, 'demo.sh')):
        rc, out = sh('bash %s %s 2>&1' % (os.path.join(d, 'demo.sh'), WT), cwd=d)
        for t in glob.glob(os.path.join(d, '**', 'target'), recursive=True):
            shutil.rmtree(t, ignore_errors=True)
        return rc, out[-800:]
    return None, 'no demo'

def main():
    if not os.path.exists(WT):
        subprocess.run('git -C /repo worktree add -q --detach %s HEAD' % WT, shell=True, check=True)
    head = subprocess.run('git -C /repo rev-parse HEAD', shell=True, capture_output=True, text=True).stdout.strip()
    sh('git checkout -q -- . && git clean -fdq && git checkout -q --detach %s' % head)
    res = json.load(open(OUT)) if os.path.exists(OUT) else {}
    for d in sorted(glob.glob(INC + '/C*/[0-9]')):
        key = '/'.join(d.split('/')[-2:])
        if key in res:
            continue
        tag = key.replace('/', '_')
        clean()
        r = {}
        r['demo_without'], _ = demo(d, tag)
        clean()
        rc, out = sh('git apply %s 2>&1' % os.path.join(d, 'patch.diff'))
        r['applies'] = rc == 0
        if rc == 0:
            src, p, f, w = suite()
            r['suite'] = {'rc': src, 'passed': p, 'failed': f}
            r['demo_with'], tail = demo(d, tag)
            if r['demo_with'] != 0:
                r['demo_tail'] = tail
        clean()
        r['confirmed'] = bool(r.get('applies') and r.get('suite', {}).get('rc') == 0 and r.get('suite', {}).get('failed') == 0 and r.get('demo_with') == 0 and r.get('demo_without') == 0)
        res[key] = r
        print(key, json.dumps({k: v for k, v in r.items() if not k.endswith('tail')}), flush=True)
        json.dump(res, open(OUT, 'w'), indent=1)
        if r['confirmed']:
            shutil.copy(os.path.join(d, 'patch.diff'), '/verif/seeded/_negative/%s_%s.diff' % (os.environ.get('REFAC_PREFIX', 'R'), tag))

main()
