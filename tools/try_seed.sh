#!/bin/bash
# usage: tools/try_seed.sh <patch.diff> <ID> [<ID>...]   — applies a patch to /repo, runs the quick checks, reverts
P=$1; shift
cd /repo || exit 2
if ! git diff --quiet; then echo "repo dirty"; exit 2; fi
git apply "$P" || { echo "patch does not apply"; exit 2; }
cd /verif
for id in "$@"; do
  out=$(./check $id --tier ${TIER:-quick} 2>&1); rc=$?
  echo "== $id rc=$rc"
  echo "$out" | grep -E "^(VIOLATION|KNOWN|CHECKER)" -A3 | cut -c1-${W:-300} | head -${N:-16}
done
git -C /repo checkout -- . ; git -C /repo clean -fdq -e target
