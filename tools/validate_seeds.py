#!/usr/bin/env python3
"""Confirms each incoming seeded change independently: with the patch the repository's own suite passes and the
demonstration fails; without the patch the demonstration passes.  Runs in a scratch worktree (never in /repo)."""
import json, os, subprocess, sys, glob, shutil
WT = os.environ.get('SEED_WT', '/tmp/seedwt')   # several validators may run side by side: SEED_WT, SEED_OUT per process
INC = os.environ.get('SEED_INC', '/verif/seeded/_incoming')
OUT = os.environ.get('SEED_OUT') or os.path.join(INC, 'validation.json')
env = dict(os.environ, CARGO_NET_OFFLINE='true', CARGO_TARGET_DIR=WT + '-target')

def sh(cmd, cwd=WT, timeout=1800):
    p = subprocess.run(cmd, cwd=cwd, shell=True, stdout=subprocess.PIPE, stderr=subprocess.STDOUT, text=True, env=env, timeout=timeout)
    return p.returncode, p.stdout

def clean():
    sh('git checkout -q -- . && git clean -fdq')

def suite():
    rc, out = sh('cargo test --workspace --no-fail-fast --offline 2>&1')
    passed = failed = 0
    for l in out.splitlines():
        if l.startswith('test result:'):
            w = l.split()
            passed += int(w[3]); failed += int(w[5])
    return rc, passed, failed, out[-1500:]

def demo(d, tag):
    if os.path.exists(os.path.join(d, 'demo.rs')):
        shutil.copy(os.path.join(d, 'demo.rs'), os.path.join(WT, 'tests', 'demo_%s.rs' % tag))
        rc, out = sh('cargo test --offline --test demo_%s 2>&1' % tag)
        os.remove(os.path.join(WT, 'tests', 'demo_%s.rs' % tag))
        return rc, out[-1200:]
    if os.path.exists(os.path.join(d, 'demo.sh')):
        rc, out = sh('bash %s %s 2>&1' % (os.path.join(d, 'demo.sh'), WT), cwd=d)
        for t in glob.glob(os.path.join(d, 'scratch*', 'target')) + glob.glob(os.path.join(d, '**', 'target'), recursive=True):
            shutil.rmtree(t, ignore_errors=True)
        return rc, out[-1200:]
    return None, 'no demo'

def main():
    if not os.path.exists(WT):
        subprocess.run('git -C /repo worktree add -q --detach %s HEAD' % WT, shell=True, check=True)
    res = {}
    if os.path.exists(OUT):
        res = json.load(open(OUT))
    only = sys.argv[1:]
    for d in sorted(glob.glob(INC + '/C*/[0-9]')):
        key = '/'.join(d.split('/')[-2:])
        if only and key not in only and key.split('/')[0] not in only:
            continue
        if key in res and not only:
            continue
        tag = key.replace('/', '_')
        clean()
        r = {}
        rc0, out0 = demo(d, tag)
        r['demo_without'] = rc0
        clean()
        rc, out = sh('git apply %s 2>&1' % os.path.join(d, 'patch.diff'))
        r['applies'] = rc == 0
        if rc != 0:
            r['apply_err'] = out[-400:]
        else:
            src, p, f, tail = suite()
            r['suite'] = {'rc': src, 'passed': p, 'failed': f}
            if src != 0:
                r['suite_tail'] = tail
            rc1, out1 = demo(d, tag)
            r['demo_with'] = rc1
            r['demo_with_tail'] = out1[-500:]
        clean()
        r['confirmed'] = bool(r.get('applies') and r.get('suite', {}).get('rc') == 0 and r.get('suite', {}).get('failed') == 0 and r.get('demo_with') not in (0, None) and r.get('demo_without') == 0)
        res[key] = r
        print(key, json.dumps({k: v for k, v in r.items() if not k.endswith('tail')}), flush=True)
        json.dump(res, open(OUT, 'w'), indent=1)

main()
