#!/usr/bin/env python3
"""Regenerates MANIFEST.json from the table below (kept valid at all times)."""
import json, os
HERE = os.path.dirname(os.path.dirname(os.path.abspath(__file__)))
ids = [json.loads(l)['id'] for l in open(os.path.join(HERE, 'properties.jsonl'))]

TV = 'translation_validation'
CORPUS = 'a class-structured corpus of derive instances (12 reprs x sign / run structure / type-limit adjacency / size / declaration order / literal spelling / naming classes x mode configurations; ~1800 instances quick, more in thorough)'
PER = ' The run-time-input quantifier is decided exactly per generated instance; the quantifier over declarations is covered by the corpus classes, not closed (DESIGN.md 6).'
BASE = 'trusts rustc (type check, MIR, const eval of literals), the core summary table listed in the evidence file, and the hand-argued soundness of the rules in rules/*.py'
CLAIMED = {
 'C01': dict(cat=TV, tech='path-sensitive interval analysis of the MIR of try_from/TryFrom (comparison guards + run-table scan specialised per table entry): accept set compared with the declared discriminants; cast-provenance rule for into/From',
   text='For each instance of ' + CORPUS + ', the set of inputs n for which try_from / TryFrom::try_from returns Some/Ok(transmute(n)) is computed from the MIR as an interval set (every CFG path, every table entry) and must equal the declared discriminant set; all other n must reach None/Err(()); no panic edge may be reachable; into/From must return the discriminant read.' + PER,
   note=BASE, ref='5 C01, rules/scan.py'),
 'C02': dict(cat=TV, tech='MIR obligation enumeration (transmute, unsafe callees) + discharge by the item rules that decide the value of the enclosing body; unsafe-callee whitelist',
   text='Every transmute and every call of an unsafe fn in every derived body of every corpus instance is enumerated from MIR. Each must sit in a body whose item rule passed (accept set / step function / index map / constructor decided for all inputs), must flow into the value that rule examined, and must be one of the three known kinds; MaybeUninit reads need the no-early-exit table loop with covering write guards. obligations == discharged is required.' + PER,
   note=BASE + '; iterator histories add no obligations beyond inputs (fields are Option<E> / core iterators)', ref='5 C02, props/c02.py'),
 'C03': dict(cat=TV, tech='per-variant read-out of as_str (switch targets / piecewise-affine index into the folded name table, run-table find() specialised per entry) compared with the rename-or-identifier name; delegation rule for Debug/Display/IntoStr by resolved callee',
   text='For every variant of every corpus instance the string as_str returns is read off the MIR: match arms directly; table modes by evaluating the index expression as a piecewise-affine function of the discriminant over the whole declared set and reading the folded name table. Debug/Display/IntoStr must be write_str(as_str(*self)) / as_str(self) with the callee identified by def-id. Panic edges (bounds checks, unchecked unwrap) must be unreachable.' + PER,
   note=BASE, ref='5 C03, rules/r_asstr.py'),
 'C04': dict(cat=TV, tech='the argument is shown to be touched only by <str as PartialEq>::eq with constants; the ordered (constant, result) list is read off the CFG (match chain / first-match scan of the folded name table) and compared with the name->smallest-discriminant map',
   text='from_str/FromStr in all modes: the only operations on the argument must be equality tests with constants (anything else is reported), so the function on all strings is determined by an ordered list of (string, result) pairs; that list is extracted (table modes: index->discriminant conversion evaluated as a piecewise-affine function; zip alignment of the two tables) and must map exactly the set of names, each to the variant with the smallest discriminant bearing it, and everything else to None/Err(()).' + PER,
   note=BASE, ref='5 C04, rules/r_fromstr.py'),
 'C05': dict(cat=TV, tech='MIN/MAX folded and compared with the sorted variant list; next/next_back evaluated per CFG path and per run-table entry as piecewise-affine functions of the discriminant and compared with the successor/predecessor function on the whole declared set',
   text='For every corpus instance the value next / next_back returns is computed for all variants at once (interval regions x affine offsets; the with-holes scan is specialised per table entry, including the fall-over to the neighbouring run) and compared with the specification successor / predecessor; None exactly at MAX / MIN; overflow asserts and unchecked unwraps must be unreachable.' + PER,
   note=BASE, ref='5 C05, rules/r_next.py'),
 'C06': dict(cat=TV, tech='reduction: forwarding rule on all Iterator/DoubleEndedIterator/ExactSizeIterator methods + constructor-term rule (modes range/table/table_inline), cursor-invariant rules on the MIR of next/next_back/size_hint/len (mode next_and_back)',
   text='The histories quantifier is discharged by reduction, not sampled: a struct all of whose iterator methods forward to the same method of its single field behaves like that field under every call sequence, and the field is a core iterator whose content is fixed by the folded constructor term (all variants ascending); for next_and_back the MIR of next/next_back must implement the cursor invariant (len==0 guard, return old cursor, cursor := and_then(verified step), len := len-1, nothing else written).' + PER,
   note=BASE + '; core iterator algebra (Map<RangeInclusive>, Copied<slice::Iter>, array::IntoIter) is trusted', ref='5 C06, rules/r_iter.py'),
 'C07': dict(cat=TV, tech='index terms of both arguments (affine, or MaybeUninit written in a no-early-exit table loop) compared with the position function; constructor-term rule per mode; panic-edge discharge by dominating start_idx<=end_idx guard; C06 rules on the result',
   text='For every corpus instance with range: start/end index expressions are evaluated as piecewise-affine functions over the whole declared set (per run-table entry for enums with holes) and must equal the position in discriminant order; the result constructor must be the sub-range / sub-slice / (Some(a),Some(b),len) form with len = 0 exactly when start_idx > end_idx; the slice index and the subtraction must be dominated by that test (never panics); the returned struct satisfies the C06 rules.' + PER,
   note=BASE, ref='5 C07, rules/r_range.py'),
 'C08': dict(cat=TV, tech='name table folded and compared with names in discriminant order; constructor term copied(iter(&table)); forwarding rule on the names struct',
   text='names() must construct Copied<slice::Iter> over the whole name table (folded from MIR and compared byte-for-byte with the rename-or-identifier names in discriminant order) and every iterator method must forward to the same method of that field, so every call sequence behaves like the core iterator over the sorted name list; alignment with iter()/as_str follows from all three being checked against the same order.' + PER,
   note=BASE, ref='5 C08'),
 'C09': dict(cat=TV, tech='all item rules of C01-C08 (each against a mode-free specification) over a configuration matrix: every mode value, auto under every steering co-feature set, gapless and holes',
   text='Each item rule compares an item with a specification that does not mention modes; this check requires every rule to pass for every enabled item in every configuration of the matrix (full mode product on four declarations, auto-steering sets, and all other corpus instances), which implies equal behaviour across configurations. What auto picks is not prescribed.' + PER,
   note=BASE, ref='5 C09'),
 'C10': dict(cat='other', tech='catalogue agreement (documentation parsed from the derive\'s doc comments vs parser facts from syn) + accept witnesses covering every (feature, mode, shape) cell, every feature pair, auto-steering sets, split attributes (token-identical expansions) + structural generator rules (check() monotone, generate() local, resolve = enable; auto; enable)',
   text='The documented features, mode values and parameter names are read from /repo/src/lib.rs and must equal what the 18 parsers accept (this reports the open finding iter mode "match" and reported struct_name before its fix). ~2300 instances deriving only Clone+Copy must compile, covering each documented (feature, mode, gapless/holes) cell as a single-feature instance so that missing helper dependencies surface, all feature pairs, the sets that steer auto, and 1/2/3/5-attribute splits whose expansions must be token-identical. Monotone check() functions, feature-local generate() functions and the unconditional three-pass resolve are checked on the syn facts; they are what lets single-feature and pairwise witnesses stand for all subsets.',
   note='rustc accept is the observation; the all-subsets argument is structural, not a proof; one known finding is listed in known_findings.json', ref='5 C10'),
 'C11': dict(cat=TV, tech='accept witnesses compiled by rustc; derived constant tables folded from MIR and compared with rustc AdtDef discriminants',
   text='Every instance of ' + CORPUS + ' must be accepted by the derive, and every table it emits (MIN/MAX, name table, variant table, run table with offsets) is constant-folded from its MIR initialiser and compared with the compiler\'s own discriminants; into/From must return the discriminant read.' + PER,
   note='trusts rustc (type check, MIR, AdtDef::discriminants) and the folder for literals/Neg/wrapping_sub/RangeInclusive::new; sizes near 65534 only in the thorough tier', ref='5 C11, 4.3'),
 'C12': dict(cat='other', tech='compile-fail witnesses: one reject witness per syntactic class (every syn::Expr form after `=`, literal kinds, field forms, item kinds, repr forms, i64 range, 65535 variants), each with a compiling twin; verdict = derive-raised rustc diagnostic located in the case',
   text='The parser dispatches on the top-level syntax class of the discriminant expression / fields / item / repr attribute, so one witness per class covers the class; ~100 witnesses are compiled in two rustc runs; a reject case passes only if the derive itself raises an error in its module, a twin differing only by the offending tokens must compile. This is the compile-fail-witness technique; it observes rustc accept/reject and decides nothing about unseen syntax classes beyond the dispatch argument.',
   note='rustc is the oracle for accept/reject; sizes above 65535 only in the thorough tier', ref='5 C12'),
 'C13': dict(cat='other', tech='compile-fail witnesses for each of the 18 feature parsers x malformation kind, repetition within/across attributes, whitelists, range/iter compatibility incl. 2^63-wide gaps, non-list forms, variant-level attributes; compiling twins',
   text='~530 witnesses compiled in two rustc runs on gapless and with-holes enums: unknown, duplicated and wrong-kind parameters per parser; vis/mode outside the documented lists; features repeated in one attribute and across attributes; unknown features; range without iter or with table_inline; iter range mode on holes; bare / name-value / nested / path forms; every variant attribute form other than rename = "literal". Each reject case must get a derive-raised diagnostic in its own module.',
   note='rustc is the oracle for accept/reject; the closedness of each parser (leftover parameters reported) is witnessed per parser, not proved for unseen parameter names', ref='5 C13'),
 'C14': dict(cat='other', tech='bounded-exhaustive compile witnesses: all declaration orders of 2-4 variant families x every sorted configuration; sortedness oracle computed by the generator; locality of the check (adjacent pairs) makes n<=4 sufficient',
   text='All permutations of 2-, 3- and 4-variant families (explicit, renamed with inverted name order, negative and i64::MIN first values, equal / prefix names, byte-wise case order) plus implicit-discriminant families, under sorted(value), sorted(name), both in either order, bare sorted and none: ~580 witnesses; accept iff the generator-side oracle says strictly sorted.',
   note='rustc is the oracle for accept/reject; adjacency argument read from src/parser/values.rs', ref='5 C14'),
 'C15': dict(cat=TV, tech='resolved visibility, def paths and callees from tcx for a matrix of enum visibilities x vis/name/struct_name parameters; public-surface equality',
   text='For every instance of a matrix {enum visibility} x {vis absent, "", pub(crate), pub} x {name/struct_name given or not} x feature sets that pull in helpers: each requested item exists under the requested name with exactly the requested resolved visibility (default: the enum\'s), the named struct is the one the function returns, every other associated item / field is private to the enum\'s module, the set of trait impls equals the requested one, and delegating features call the user-named item.',
   note='visibility is rustc\'s resolved tcx.visibility; reachability from outside follows from it', ref='5 C15'),
 'C16': dict(cat='other', tech='absolute-path lint over all quote! templates (syn, after de-interpolation) with positive/negative fixtures; hostile-context accept witnesses (no_std, no_implicit_prelude, shadowing items/modules/macros); resolved-callee identity between clean and hostile context plus all item rules re-run on the hostile copies',
   text='(a) every path in every one of the 55 templates must be ::core-absolute, Self/self, an interpolation, a primitive, a template-local binding or imported by `use ::core::..` inside the template; every macro call must go through ::core. (b) ~900 instances covering every feature x mode x shape are recompiled in #![no_std] crates next to user structs, traits, fns, modules and macros named like prelude/core items. (c) on those copies all C01-C08 item rules pass and every derived body resolves to the same core callees as in the clean context - identical resolved code means identical behaviour.',
   note='the lint is syntactic (method resolution is left to rustc on the witnesses); primitive-type shadowing is outside the property\'s list', ref='5 C16'),
 'C17': dict(cat='other', tech='order-taint dataflow on the generator\'s own type-resolved MIR: every HashMap/HashSet iteration must reach a key-sorted Vec on all paths or only diagnostics; nondeterminism-source denylist over all resolved callees; compiled positive/negative fixtures',
   text='All bodies of the generator crate are extracted from /repo with the rustc driver; every iteration over a hash container is enumerated (3 today, floor enforced); its data may flow only through the iterator protocol into a Vec whose sort (by the unique map key, checked on the closure bodies) dominates every return, or into proc_macro_error diagnostics; no body may call into time/env/process/thread/fs/net/RandomState or expose a pointer. This decides the property for all hash seeds and all processes at once, which no number of repeated expansions can.',
   note='dependencies (syn, quote, proc-macro2, proc-macro-error) are assumed deterministic; error order of simultaneous diagnostics is outside the property', ref='5 C17'),
 'C18': dict(cat=TV, tech='token identity of expansions across permutation families and across repr families modulo repr/companion/suffix substitution (syn-normalised -Zunpretty=expanded), all item rules on every family member, width table of the repr->unsigned map',
   text='40 families: one value set declared in all (n<=4) or several orders must expand to token-identical derived items; the same declaration over every fixed-width repr that holds the values must expand identically after replacing the repr, its unsigned companion and literal suffixes by placeholders; every member additionally passes all C01-C08 item rules (so the width-parametric arithmetic is right for each width); src/parser/mod.rs must map every repr to the unsigned type of the same width.',
   note='token-identical derived items are taken to behave identically; pointer-sized reprs are covered by the item rules only', ref='5 C18'),
 'C19': dict(cat=TV, tech='resolved signatures from tcx (fn_sig, is_const_fn, type_of, impl_trait_ref) compared with the documented ones for every instance of the configuration corpus',
   text='For every corpus instance (every mode of every moded feature, gapless and with holes, 12 reprs) the documented signature of every requested item is compared with what rustc resolved: parameter and return types, const-ness of into, associated-const types, trait impls with their associated types, the four iterator traits with Item.',
   note='trusts rustc\'s resolved signatures; the configuration quantifier is covered by the corpus', ref='5 C19'),
}
NA_REASON = 'check not built yet (round 1 in progress); see DESIGN.md section 5 for the planned static decision'

m = {
 'version': 1,
 'setup_cmd': './setup.sh',
 'hooks': {'guard': 'enum_tools_verif', 'enable': 'none: static analysis needs no instrumentation in /repo; the guard is declared and unused',
           'baseline_off_cmd': 'cd /repo && cargo test --workspace --no-fail-fast --offline', 'source_commits': [], 'add_only': True},
 'engines': [
  {'name': 'factdump', 'path': 'factdump/', 'serves_properties': sorted(CLAIMED), 'kind_free_text': 'rustc_private driver: serialises ADTs, items, resolved signatures/visibility and MIR with resolved callees of witness crates and of /repo'},
  {'name': 'tmplx', 'path': 'tmplx/', 'serves_properties': ['C10', 'C16', 'C18'], 'kind_free_text': 'syn-based extractor of generator facts (quote! templates, parser literals, assignments) and of normalised item tokens from expanded sources'},
  {'name': 'corpus', 'path': 'corpus/', 'serves_properties': sorted(CLAIMED), 'kind_free_text': 'python: class-structured witness declarations/configurations, written to a scratch cargo workspace per run'},
  {'name': 'rules', 'path': 'rules/ props/', 'serves_properties': sorted(CLAIMED), 'kind_free_text': 'python rule engine: CFG, dominators, reaching definitions, terms, guards, constant folding, table facts, per-property rules'},
 ],
 'checks': [], 'notes': 'see DESIGN.md; fix commits in /repo: 3ca4b7e 04828ef 69dc23a fa30451 (recorded in known_findings.json)',
 'not_applicable': [],
}
for i in ids:
    if i in CLAIMED:
        c = CLAIMED[i]
        m['checks'].append({
            'property_id': i, 'quick_cmd': './check %s --tier quick' % i, 'thorough_cmd': './check %s --tier thorough' % i,
            'evidence_file': 'evidence/%s.json' % i, 'replay_cmd_template': './check %s --replay {path}' % i, 'engine': 'rules',
            'level_claimed': {'category': c['cat'], 'text': c['text'], 'design_ref': c['ref']}, 'level_note': c['note'], 'technique': c['tech']})
    else:
        m['not_applicable'].append({'property_id': i, 'reason': NA_REASON})
json.dump(m, open(os.path.join(HERE, 'MANIFEST.json'), 'w'), indent=1)
print('checks:', [c['property_id'] for c in m['checks']])
