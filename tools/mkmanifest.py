#!/usr/bin/env python3
"""Regenerates MANIFEST.json from the table below (kept valid at all times)."""
import json, os
HERE = os.path.dirname(os.path.dirname(os.path.abspath(__file__)))
ids = [json.loads(l)['id'] for l in open(os.path.join(HERE, 'properties.jsonl'))]

TV = 'translation_validation'
CLAIMED = {
 'C11': dict(cat=TV, tech='accept witnesses compiled by rustc; derived constant tables folded from MIR and compared with rustc AdtDef discriminants',
   text='Every instance of a class-structured declaration corpus (12 reprs x sign/run/limit/size/order/spelling/naming classes) is compiled; the derive must accept it, and every table it emits (MIN/MAX, name table, variant table, run table with offsets) is constant-folded from its MIR initialiser and compared with the compiler\'s own discriminants; `into`/`From` must return the discriminant read. Decides the property per generated instance for all run-time inputs; the quantifier over declarations is covered by classes, not closed.',
   note='trusts rustc (type check, MIR, AdtDef::discriminants) and the folder for literals/Neg/wrapping_sub/RangeInclusive::new; sizes near 65534 only in the thorough tier', ref='5 C11, 4.3'),
 'C19': dict(cat=TV, tech='resolved signatures from tcx (fn_sig, is_const_fn, type_of, impl_trait_ref) compared with the documented ones for every instance of the configuration corpus',
   text='For every instance of the configuration corpus (every mode of every moded feature, gapless and with holes, 12 reprs) the documented signature of every requested item is compared with what rustc resolved: parameter and return types, const-ness of `into`, associated-const types, trait impls with their associated types, the four iterator traits with Item. Signatures are facts of the type-checked program, so this is exact per instance.',
   note='trusts rustc\'s resolved signatures; the configuration quantifier is covered by the corpus of DESIGN.md 3.3', ref='5 C19'),
}
NA_REASON = 'check not built yet (round 1 in progress); see DESIGN.md section 5 for the planned static decision'

m = {
 'version': 1,
 'setup_cmd': './setup.sh',
 'hooks': {'guard': 'enum_tools_verif', 'enable': 'none: static analysis needs no instrumentation in /repo; the guard is declared and unused',
           'baseline_off_cmd': 'cd /repo && cargo test --workspace --no-fail-fast --offline', 'source_commits': [], 'add_only': True},
 'engines': [
  {'name': 'factdump', 'path': 'factdump/', 'serves_properties': sorted(CLAIMED), 'kind_free_text': 'rustc_private driver: serialises ADTs, items, resolved signatures/visibility and MIR with resolved callees of witness crates and of /repo'},
  {'name': 'corpus', 'path': 'corpus/', 'serves_properties': sorted(CLAIMED), 'kind_free_text': 'python: class-structured witness declarations/configurations, written to a scratch cargo workspace per run'},
  {'name': 'rules', 'path': 'rules/ props/', 'serves_properties': sorted(CLAIMED), 'kind_free_text': 'python rule engine: CFG, dominators, reaching definitions, terms, guards, constant folding, table facts, per-property rules'},
 ],
 'checks': [], 'notes': 'see DESIGN.md; fix commits in /repo: 3ca4b7e 04828ef 69dc23a fa30451 (recorded in known_findings.json)',
 'not_applicable': [],
}
for i in ids:
    if i in CLAIMED:
        c = CLAIMED[i]
        m['checks'].append({
            'property_id': i, 'quick_cmd': './check %s --tier quick' % i, 'thorough_cmd': './check %s --tier thorough' % i,
            'evidence_file': 'evidence/%s.json' % i, 'replay_cmd_template': './check %s --replay {path}' % i, 'engine': 'rules',
            'level_claimed': {'category': c['cat'], 'text': c['text'], 'design_ref': c['ref']}, 'level_note': c['note'], 'technique': c['tech']})
    else:
        m['not_applicable'].append({'property_id': i, 'reason': NA_REASON})
json.dump(m, open(os.path.join(HERE, 'MANIFEST.json'), 'w'), indent=1)
print('checks:', [c['property_id'] for c in m['checks']])
