#!/usr/bin/env python3
"""Detection matrix: applies each confirmed seeded change to a scratch worktree of /repo (never /repo itself) and runs
every quick check against it (VERIF_REPO points the machinery at the worktree); records which checks report it."""
import json, os, subprocess, sys, glob, re
HERE = os.path.dirname(os.path.dirname(os.path.abspath(__file__)))
# MATRIX_SHARD=i/n : this process takes every n-th seed (own worktree, cache and output file), so that several can run side by side
SH_I, SH_N = (int(x) for x in (os.environ.get('MATRIX_SHARD') or '0/1').split('/'))
SFX = '' if SH_N == 1 else str(SH_I)
WT = '/tmp/matrixwt' + SFX
OUT = (os.environ.get('MATRIX_OUT') or os.path.join(HERE, 'seeded', 'matrix.json')) + ('' if SH_N == 1 else '.%d' % SH_I)
IDS = "C11 C01 C02 C03 C04 C05 C06 C07 C08 C09 C10 C12 C13 C14 C15 C16 C17 C18 C19".split()
env = dict(os.environ, VERIF_DRIVER='/verif/factdump/target/release/factdump', VERIF_TMPLX='/verif/tmplx/target/release/tmplx', VERIF_REPO=WT, VERIF_CACHE='/tmp/matrix-cache' + SFX, VERIF_EVIDENCE_DIR='/tmp/matrix-evidence' + SFX, VERIF_REPLAY_DIR='/tmp/matrix-replays' + SFX, VERIF_SCRATCH='/tmp/matrix-scratch' + SFX, VERIF_CACHE_KEEP='1', P=os.environ.get('P', '4'), VERIF_JOBS=os.environ.get('VERIF_JOBS', '6'))

VERIF_COMMIT = subprocess.run('git -C /verif rev-parse --short HEAD', shell=True, capture_output=True, text=True).stdout.strip()

def main():
    if not os.path.exists(WT):
        subprocess.run('git -C /repo worktree add -q --detach %s HEAD' % WT, shell=True, check=True)
    # the worktree always follows /repo's HEAD (the fix commits move it)
    head = subprocess.run('git -C /repo rev-parse HEAD', shell=True, capture_output=True, text=True).stdout.strip()
    subprocess.run('git checkout -q -- . && git clean -fdq && git checkout -q --detach %s' % head, shell=True, cwd=WT, check=True)
    res = json.load(open(OUT)) if os.path.exists(OUT) else {}
    unconfirmed = set()
    for inc, sfx in (('_incoming', ''), ('_incoming2', '#2'), ('_incoming3', '#3'), ('_incoming4', '#4'), ('_incoming5', '#5'), ('_incoming6', '#6'), ('_incoming7', '#7')):
        vf = os.path.join(HERE, 'seeded', inc, 'validation.json')
        if os.path.exists(vf):
            unconfirmed |= {k + sfx for k, v in json.load(open(vf)).items() if not v.get('confirmed')}
    # negative controls and reverted fixes first, then the latest round backwards (if time runs out the oldest rounds keep older rows)
    seeds = sorted(glob.glob(HERE + '/seeded/_negative/*.diff')) + sorted(glob.glob(HERE + '/seeded/_revert/*.diff'))
    for inc in sorted(glob.glob(HERE + '/seeded/_incoming*'), reverse=True):
        seeds += sorted(glob.glob(inc + '/C*/[0-9]/patch.diff'))
    only = sys.argv[1:]
    for n_seed, p in enumerate(seeds):
        if n_seed % SH_N != SH_I:
            continue
        key = ('/'.join(p.split('/')[-3:-1]) + (lambda m: '#' + m.group(1) if m else '')(re.search(r'_incoming(\d+)/', p))) if p.endswith('patch.diff') else os.path.basename(p)[:-5]
        if only and not any(o in key for o in only):
            continue
        if key in res and (not only or os.environ.get('MATRIX_REDO') == '0'):
            continue
        if key in unconfirmed:
            continue          # e.g. a seeded change that a later fix commit made harmless
        subprocess.run('git checkout -q -- . && git clean -fdq', shell=True, cwd=WT)
        a = subprocess.run(['git', 'apply', p], cwd=WT, capture_output=True, text=True)
        if a.returncode != 0:
            res[key] = {'error': 'patch does not apply: ' + a.stderr[-200:]}
            continue
        # MATRIX_OWN=1: only the check of the change's own property (a screening row, marked _own_check_only)
        own_only = bool(os.environ.get('MATRIX_OWN')) and p.endswith('patch.diff')
        r = subprocess.run([os.path.join(HERE, 'tools', 'run_all.sh')] + ([key.split('/')[0]] if own_only else []), cwd=HERE, env=env, capture_output=True, text=True)
        row = {'_own_check_only': True} if own_only else {}
        for l in r.stdout.splitlines():
            m = re.match(r'^(C\d+) rc=(\d+) violations=(\d+) errors=(\d+)\s*(.*)$', l)
            if m:
                row[m.group(1)] = {'rc': int(m.group(2)), 'violations': int(m.group(3)), 'errors': int(m.group(4)), 'rules': m.group(5).strip()}
        row['_at'] = {'verif': VERIF_COMMIT, 'repo': head[:7]}
        res[key] = row
        caught = [c for c, v in row.items() if not c.startswith('_') and isinstance(v, dict) and v['rc'] == 1]
        print(key, 'caught by', caught, flush=True)
        json.dump(res, open(OUT, 'w'), indent=1)
    subprocess.run('git checkout -q -- . && git clean -fdq', shell=True, cwd=WT)

main()
