#!/usr/bin/env python3
"""Detection matrix: applies each confirmed seeded change to a scratch worktree of /repo (never /repo itself) and runs
every quick check against it (VERIF_REPO points the machinery at the worktree); records which checks report it."""
import json, os, subprocess, sys, glob, re
HERE = os.path.dirname(os.path.dirname(os.path.abspath(__file__)))
WT = '/tmp/matrixwt'
OUT = os.environ.get('MATRIX_OUT') or os.path.join(HERE, 'seeded', 'matrix.json')
IDS = "C11 C01 C02 C03 C04 C05 C06 C07 C08 C09 C10 C12 C13 C14 C15 C16 C17 C18 C19".split()
env = dict(os.environ, VERIF_DRIVER='/verif/factdump/target/release/factdump', VERIF_TMPLX='/verif/tmplx/target/release/tmplx', VERIF_REPO=WT, VERIF_CACHE='/tmp/matrix-cache', VERIF_EVIDENCE_DIR='/tmp/matrix-evidence', VERIF_REPLAY_DIR='/tmp/matrix-replays', VERIF_CACHE_KEEP='1', P='5')

def main():
    if not os.path.exists(WT):
        subprocess.run('git -C /repo worktree add -q --detach %s HEAD' % WT, shell=True, check=True)
    res = json.load(open(OUT)) if os.path.exists(OUT) else {}
    seeds = sorted(glob.glob(HERE + '/seeded/_incoming*/C*/[0-9]/patch.diff')) + sorted(glob.glob(HERE + '/seeded/_negative/*.diff')) + sorted(glob.glob(HERE + '/seeded/_revert/*.diff'))
    only = sys.argv[1:]
    for p in seeds:
        key = ('/'.join(p.split('/')[-3:-1]) + ('#2' if '_incoming2' in p else '')) if p.endswith('patch.diff') else os.path.basename(p)[:-5]
        if only and not any(o in key for o in only):
            continue
        if key in res and not only:
            continue
        subprocess.run('git checkout -q -- . && git clean -fdq', shell=True, cwd=WT)
        a = subprocess.run(['git', 'apply', p], cwd=WT, capture_output=True, text=True)
        if a.returncode != 0:
            res[key] = {'error': 'patch does not apply: ' + a.stderr[-200:]}
            continue
        r = subprocess.run([os.path.join(HERE, 'tools', 'run_all.sh')], cwd=HERE, env=env, capture_output=True, text=True)
        row = {}
        for l in r.stdout.splitlines():
            m = re.match(r'^(C\d+) rc=(\d+) violations=(\d+) errors=(\d+)\s*(.*)$', l)
            if m:
                row[m.group(1)] = {'rc': int(m.group(2)), 'violations': int(m.group(3)), 'errors': int(m.group(4)), 'rules': m.group(5).strip()}
        res[key] = row
        caught = [c for c, v in row.items() if v['rc'] == 1]
        print(key, 'caught by', caught, flush=True)
        json.dump(res, open(OUT, 'w'), indent=1)
    subprocess.run('git checkout -q -- . && git clean -fdq', shell=True, cwd=WT)

main()
