// factdump: E1 of /verif/DESIGN.md.  A rustc_private driver, injected with
// RUSTC_WORKSPACE_WRAPPER, that serialises the *resolved* program of the local
// crate to JSON: ADTs with rustc's own discriminants, every item with resolved
// visibility / constness / signature, trait impls, and the MIR of every body
// with callees resolved.  It is a pure serialiser: all judgement is in the
// python rule engine.  Zero cargo dependencies.
#![feature(rustc_private)]
#![allow(rustc::internal)]
extern crate rustc_abi;
extern crate rustc_driver;
extern crate rustc_hir;
extern crate rustc_interface;
extern crate rustc_middle;
extern crate rustc_span;

mod json;
use json::J;

use rustc_driver::Compilation;
use rustc_hir::def::DefKind;
use rustc_hir::def_id::{DefId, LocalDefId, LOCAL_CRATE};
use rustc_interface::interface::Compiler;
use rustc_middle::mir::{
    self, AggregateKind, BasicBlockData, Body, CastKind, Const, ConstValue, Operand, Place,
    ProjectionElem, Rvalue, StatementKind, TerminatorKind,
};
use rustc_middle::ty::util::IntTypeExt;
use rustc_middle::ty::{self, GenericArgsRef, Instance, Ty, TyCtxt, TypingEnv};

struct Cb;

thread_local! {
    static TYPES: std::cell::RefCell<(std::collections::HashMap<String, usize>, Vec<J>)> = std::cell::RefCell::new((std::collections::HashMap::new(), Vec::new()));
    static CALLEES: std::cell::RefCell<(std::collections::HashMap<String, usize>, Vec<J>)> = std::cell::RefCell::new((std::collections::HashMap::new(), Vec::new()));
}

struct CV<'tcx>(ConstValue, Ty<'tcx>);
impl<'tcx> std::fmt::Display for CV<'tcx> {
    fn fmt(&self, f: &mut std::fmt::Formatter<'_>) -> std::fmt::Result {
        write!(f, "{}", Const::Val(self.0, self.1))
    }
}

fn canon_path(tcx: TyCtxt<'_>, did: DefId) -> String {
    let krate = tcx.crate_name(did.krate);
    format!("{}{}", krate, tcx.def_path(did).to_string_no_crate_verbose())
}

fn ty_json<'tcx>(tcx: TyCtxt<'tcx>, t: Ty<'tcx>) -> J {
    let key = format!("{:?}", t);
    if let Some(i) = TYPES.with(|c| c.borrow().0.get(&key).copied()) {
        return J::Num(i as i128);
    }
    let full = ty_json_full(tcx, t);
    TYPES.with(|c| {
        let mut c = c.borrow_mut();
        let i = c.1.len();
        c.1.push(full);
        c.0.insert(key, i);
        J::Num(i as i128)
    })
}

fn ty_json_full<'tcx>(tcx: TyCtxt<'tcx>, t: Ty<'tcx>) -> J {
    let mut o = J::obj();
    o.set("s", J::s(format!("{}", rustc_middle::ty::print::with_no_trimmed_paths!(t.to_string()))));
    match t.kind() {
        ty::Bool => o.set("k", J::s("bool")),
        ty::Char => o.set("k", J::s("char")),
        ty::Str => o.set("k", J::s("str")),
        ty::Never => o.set("k", J::s("never")),
        ty::Int(i) => {
            o.set("k", J::s("int"));
            o.set("name", J::s(i.name_str()));
            o.set("signed", J::Bool(true));
            o.set("bits", J::Num(i.bit_width().unwrap_or(tcx.data_layout.pointer_size().bits()) as i128));
        }
        ty::Uint(i) => {
            o.set("k", J::s("int"));
            o.set("name", J::s(i.name_str()));
            o.set("signed", J::Bool(false));
            o.set("bits", J::Num(i.bit_width().unwrap_or(tcx.data_layout.pointer_size().bits()) as i128));
        }
        ty::Adt(def, args) => {
            o.set("k", J::s("adt"));
            o.set("path", J::s(canon_path(tcx, def.did())));
            o.set("local", J::Bool(def.did().is_local()));
            o.set("args", args_json(tcx, args));
        }
        ty::Ref(_, inner, m) => {
            o.set("k", J::s("ref"));
            o.set("mut", J::Bool(m.is_mut()));
            o.set("to", ty_json(tcx, *inner));
        }
        ty::RawPtr(inner, m) => {
            o.set("k", J::s("rawptr"));
            o.set("mut", J::Bool(m.is_mut()));
            o.set("to", ty_json(tcx, *inner));
        }
        ty::Array(e, n) => {
            o.set("k", J::s("array"));
            o.set("elem", ty_json(tcx, *e));
            match n.try_to_target_usize(tcx) {
                Some(v) => o.set("len", J::Num(v as i128)),
                None => o.set("len", J::Null),
            }
        }
        ty::Slice(e) => {
            o.set("k", J::s("slice"));
            o.set("elem", ty_json(tcx, *e));
        }
        ty::Tuple(ts) => {
            o.set("k", J::s("tuple"));
            o.set("elems", J::Arr(ts.iter().map(|x| ty_json(tcx, x)).collect()));
        }
        ty::FnDef(did, args) => {
            o.set("k", J::s("fndef"));
            o.set("callee", callee_json(tcx, *did, args, None));
        }
        ty::FnPtr(..) => o.set("k", J::s("fnptr")),
        ty::Closure(did, _) => {
            o.set("k", J::s("closure"));
            o.set("path", J::s(canon_path(tcx, *did)));
        }
        ty::Param(p) => {
            o.set("k", J::s("param"));
            o.set("name", J::s(p.name.as_str()));
        }
        _ => o.set("k", J::s("other")),
    }
    o
}

fn args_json<'tcx>(tcx: TyCtxt<'tcx>, args: GenericArgsRef<'tcx>) -> J {
    let mut v = Vec::new();
    for a in args.iter() {
        if let Some(t) = a.as_type() {
            v.push(ty_json(tcx, t));
        } else if let Some(c) = a.as_const() {
            let mut o = J::obj();
            o.set("k", J::s("const"));
            o.set("s", J::s(format!("{}", c)));
            v.push(o);
        }
    }
    J::Arr(v)
}

/// Describes a callee: canonical def path, item name, the trait it belongs to
/// (if a trait method), the impl self type (if an inherent / impl method),
/// generic args, and the instance it resolves to in `body_env`.
fn callee_json<'tcx>(
    tcx: TyCtxt<'tcx>,
    did: DefId,
    args: GenericArgsRef<'tcx>,
    env: Option<TypingEnv<'tcx>>,
) -> J {
    let key = format!("{:?}|{:?}|{}", did, args, env.is_some());
    if let Some(i) = CALLEES.with(|c| c.borrow().0.get(&key).copied()) {
        return J::Num(i as i128);
    }
    let full = callee_json_full(tcx, did, args, env);
    CALLEES.with(|c| {
        let mut c = c.borrow_mut();
        let i = c.1.len();
        c.1.push(full);
        c.0.insert(key, i);
        J::Num(i as i128)
    })
}

fn callee_json_full<'tcx>(
    tcx: TyCtxt<'tcx>,
    did: DefId,
    args: GenericArgsRef<'tcx>,
    env: Option<TypingEnv<'tcx>>,
) -> J {
    let mut o = J::obj();
    o.set("path", J::s(canon_path(tcx, did)));
    o.set("local", J::Bool(did.is_local()));
    o.set("name", J::s(tcx.item_name(did).as_str()));
    o.set("args", args_json(tcx, args));
    o.set(
        "pretty",
        J::s(rustc_middle::ty::print::with_no_trimmed_paths!(tcx.def_path_str_with_args(did, args))),
    );
    if matches!(tcx.def_kind(did), DefKind::AssocFn | DefKind::AssocConst { .. } | DefKind::AssocTy) {
        let parent = tcx.parent(did);
        match tcx.def_kind(parent) {
            DefKind::Trait => {
                o.set("trait", J::s(canon_path(tcx, parent)));
            }
            DefKind::Impl { of_trait } => {
                let self_ty = tcx.type_of(parent).instantiate_identity().skip_norm_wip();
                o.set("impl_self", ty_json(tcx, self_ty));
                if of_trait {
                    let tr = tcx.impl_trait_ref(parent).instantiate_identity().skip_norm_wip();
                    o.set("impl_trait", J::s(canon_path(tcx, tr.def_id)));
                }
            }
            _ => {}
        }
    }
    let is_unsafe = matches!(tcx.def_kind(did), DefKind::Fn | DefKind::AssocFn)
        && tcx.fn_sig(did).skip_binder().safety().is_unsafe();
    o.set("unsafe", J::Bool(is_unsafe));
    if let Some(env) = env {
        if matches!(tcx.def_kind(did), DefKind::Fn | DefKind::AssocFn) {
            if let Ok(Some(inst)) = Instance::try_resolve(tcx, env, did, args) {
                let rd = inst.def_id();
                let mut r = J::obj();
                r.set("path", J::s(canon_path(tcx, rd)));
                r.set("local", J::Bool(rd.is_local()));
                r.set("kind", J::s(format!("{:?}", inst.def).split('(').next().unwrap_or("")));
                if matches!(tcx.def_kind(rd), DefKind::AssocFn) {
                    let parent = tcx.parent(rd);
                    if let DefKind::Impl { of_trait } = tcx.def_kind(parent) {
                        let self_ty = tcx.type_of(parent).instantiate_identity().skip_norm_wip();
                        r.set("impl_self", ty_json(tcx, self_ty));
                        if of_trait {
                            let tr = tcx.impl_trait_ref(parent).instantiate_identity().skip_norm_wip();
                            r.set("impl_trait", J::s(canon_path(tcx, tr.def_id)));
                        }
                    }
                }
                o.set("resolved", r);
            }
        }
    }
    o
}

fn place_json<'tcx>(tcx: TyCtxt<'tcx>, p: &Place<'tcx>) -> J {
    let mut o = J::obj();
    o.set("l", J::Num(p.local.as_u32() as i128));
    let mut pr = Vec::new();
    for e in p.projection.iter() {
        let mut x = J::obj();
        match e {
            ProjectionElem::Deref => x.set("p", J::s("deref")),
            ProjectionElem::Field(f, t) => {
                x.set("p", J::s("field"));
                x.set("i", J::Num(f.as_u32() as i128));
                let _ = t;
            }
            ProjectionElem::Index(l) => {
                x.set("p", J::s("index"));
                x.set("l", J::Num(l.as_u32() as i128));
            }
            ProjectionElem::ConstantIndex { offset, min_length, from_end } => {
                x.set("p", J::s("constindex"));
                x.set("offset", J::Num(offset as i128));
                x.set("min_length", J::Num(min_length as i128));
                x.set("from_end", J::Bool(from_end));
            }
            ProjectionElem::Downcast(name, v) => {
                x.set("p", J::s("downcast"));
                x.set("v", J::Num(v.as_u32() as i128));
                if let Some(n) = name {
                    x.set("name", J::s(n.as_str()));
                }
            }
            other => {
                x.set("p", J::s("other"));
                x.set("s", J::s(format!("{:?}", other)));
            }
        }
        pr.push(x);
    }
    o.set("pr", J::Arr(pr));
    let _ = tcx;
    o
}

fn scalar_int_json<'tcx>(tcx: TyCtxt<'tcx>, ty: Ty<'tcx>, bits: u128, size_bytes: u64) -> J {
    // value rendered as a decimal string (128-bit safe), sign-interpreted by type
    let nb = size_bytes * 8;
    let v: String = match ty.kind() {
        ty::Int(_) => {
            let shift = 128 - nb as u32;
            let s = ((bits << shift) as i128) >> shift;
            s.to_string()
        }
        _ => bits.to_string(),
    };
    let _ = tcx;
    J::s(v)
}

fn const_json<'tcx>(tcx: TyCtxt<'tcx>, c: &Const<'tcx>, env: TypingEnv<'tcx>) -> J {
    let mut o = J::obj();
    let ty = c.ty();
    o.set("ty", ty_json(tcx, ty));
    match c {
        Const::Unevaluated(uv, _) => {
            o.set("c", J::s("unevaluated"));
            o.set("def", J::s(canon_path(tcx, uv.def)));
            o.set("local", J::Bool(uv.def.is_local()));
            if let Some(p) = uv.promoted {
                o.set("promoted", J::Num(p.as_u32() as i128));
            }
            o.set("args", args_json(tcx, uv.args));
        }
        Const::Val(val, _) => {
            const_value_json(tcx, &mut o, *val, ty);
        }
        Const::Ty(_, ct) => {
            o.set("c", J::s("tyconst"));
            if let Some(v) = ct.try_to_value() {
                if let Some(bytes) = v.try_to_raw_bytes(tcx) {
                    if let ty::Ref(_, inner, _) = ty.kind() {
                        if inner.is_str() {
                            o.set("c", J::s("slice"));
                            o.set("bytes", J::Arr(bytes.iter().map(|b| J::Num(*b as i128)).collect()));
                        }
                    }
                } else if let Some(si) = ct.try_to_leaf() {
                    o.set("c", J::s("scalar"));
                    let size = si.size().bytes();
                    o.set("v", scalar_int_json(tcx, ty, si.to_bits(si.size()), size));
                }
            }
        }
    }
    let _ = env;
    o
}

fn const_value_json<'tcx>(tcx: TyCtxt<'tcx>, o: &mut J, val: ConstValue, ty: Ty<'tcx>) {
    match val {
        ConstValue::Scalar(mir::interpret::Scalar::Int(si)) => {
            o.set("c", J::s("scalar"));
            let size = si.size().bytes();
            let bits = si.to_bits(si.size());
            o.set("v", scalar_int_json(tcx, ty, bits, size));
        }
        ConstValue::Scalar(_) => {
            o.set("c", J::s("ptr"));
        }
        ConstValue::ZeroSized => {
            o.set("c", J::s("zst"));
        }
        ConstValue::Slice { .. } => {
            o.set("c", J::s("slice"));
            if let ty::Ref(_, inner, _) = ty.kind() {
                if inner.is_str() {
                    if let Some(bytes) = val.try_get_slice_bytes_for_diagnostics(tcx) {
                        o.set("bytes", J::Arr(bytes.iter().map(|b| J::Num(*b as i128)).collect()));
                    }
                }
            }
        }
        ConstValue::Indirect { .. } => {
            o.set("c", J::s("indirect"));
        }
    }
}

fn operand_json<'tcx>(tcx: TyCtxt<'tcx>, op: &Operand<'tcx>, env: TypingEnv<'tcx>) -> J {
    let mut o = J::obj();
    match op {
        Operand::Copy(p) => {
            o.set("o", J::s("copy"));
            o.set("place", place_json(tcx, p));
        }
        Operand::Move(p) => {
            o.set("o", J::s("move"));
            o.set("place", place_json(tcx, p));
        }
        Operand::Constant(c) => {
            o.set("o", J::s("const"));
            o.set("const", const_json(tcx, &c.const_, env));
            o.set("from_expansion", J::Bool(c.span.from_expansion()));
        }
        #[allow(unreachable_patterns)]
        other => {
            o.set("o", J::s("other"));
            o.set("s", J::s(format!("{:?}", other)));
        }
    }
    o
}

fn rvalue_json<'tcx>(tcx: TyCtxt<'tcx>, rv: &Rvalue<'tcx>, env: TypingEnv<'tcx>) -> J {
    let mut o = J::obj();
    match rv {
        Rvalue::Use(op, _) => {
            o.set("r", J::s("use"));
            o.set("op", operand_json(tcx, op, env));
        }
        Rvalue::Repeat(op, n) => {
            o.set("r", J::s("repeat"));
            o.set("op", operand_json(tcx, op, env));
            if let Some(v) = n.try_to_target_usize(tcx) {
                o.set("n", J::Num(v as i128));
            }
        }
        Rvalue::Ref(_, bk, p) => {
            o.set("r", J::s("ref"));
            o.set("mut", J::Bool(matches!(bk, mir::BorrowKind::Mut { .. })));
            o.set("place", place_json(tcx, p));
        }
        Rvalue::RawPtr(k, p) => {
            o.set("r", J::s("rawptr"));
            o.set("kind", J::s(format!("{:?}", k)));
            o.set("place", place_json(tcx, p));
        }
        Rvalue::Cast(kind, op, ty) => {
            o.set("r", J::s("cast"));
            let ks = match kind {
                CastKind::IntToInt => "IntToInt".to_string(),
                CastKind::Transmute => "Transmute".to_string(),
                other => format!("{:?}", other),
            };
            o.set("kind", J::s(ks));
            o.set("op", operand_json(tcx, op, env));
            o.set("ty", ty_json(tcx, *ty));
        }
        Rvalue::BinaryOp(bop, ab) => {
            o.set("r", J::s("binop"));
            o.set("op", J::s(format!("{:?}", bop)));
            o.set("a", operand_json(tcx, &ab.0, env));
            o.set("b", operand_json(tcx, &ab.1, env));
        }
        Rvalue::UnaryOp(uop, a) => {
            o.set("r", J::s("unop"));
            o.set("op", J::s(format!("{:?}", uop)));
            o.set("a", operand_json(tcx, a, env));
        }
        Rvalue::Discriminant(p) => {
            o.set("r", J::s("discriminant"));
            o.set("place", place_json(tcx, p));
        }
        Rvalue::Aggregate(kind, ops) => {
            o.set("r", J::s("aggregate"));
            match &**kind {
                AggregateKind::Array(t) => {
                    o.set("agg", J::s("array"));
                    o.set("elem", ty_json(tcx, *t));
                }
                AggregateKind::Tuple => o.set("agg", J::s("tuple")),
                AggregateKind::Adt(did, variant, args, _, _) => {
                    o.set("agg", J::s("adt"));
                    o.set("path", J::s(canon_path(tcx, *did)));
                    o.set("local", J::Bool(did.is_local()));
                    o.set("variant", J::Num(variant.as_u32() as i128));
                    let adt = tcx.adt_def(*did);
                    o.set("variant_name", J::s(adt.variant(*variant).name.as_str()));
                    o.set("args", args_json(tcx, args));
                }
                AggregateKind::Closure(did, _) => {
                    o.set("agg", J::s("closure"));
                    o.set("path", J::s(canon_path(tcx, *did)));
                }
                other => {
                    o.set("agg", J::s("other"));
                    o.set("s", J::s(format!("{:?}", other)));
                }
            }
            o.set("ops", J::Arr(ops.iter().map(|x| operand_json(tcx, x, env)).collect()));
        }
        Rvalue::CopyForDeref(p) => {
            o.set("r", J::s("use"));
            let mut op = J::obj();
            op.set("o", J::s("copy"));
            op.set("place", place_json(tcx, p));
            o.set("op", op);
        }
        other => {
            o.set("r", J::s("other"));
            o.set("s", J::s(format!("{:?}", other)));
        }
    }
    o
}

fn block_json<'tcx>(tcx: TyCtxt<'tcx>, bb: &BasicBlockData<'tcx>, env: TypingEnv<'tcx>) -> J {
    let mut o = J::obj();
    o.set("cleanup", J::Bool(bb.is_cleanup));
    let mut st = Vec::new();
    for s in &bb.statements {
        match &s.kind {
            StatementKind::Assign(b) => {
                let mut x = J::obj();
                x.set("s", J::s("assign"));
                x.set("place", place_json(tcx, &b.0));
                x.set("rv", rvalue_json(tcx, &b.1, env));
                x.set("from_expansion", J::Bool(s.source_info.span.from_expansion()));
                st.push(x);
            }
            StatementKind::SetDiscriminant { place, variant_index } => {
                let mut x = J::obj();
                x.set("s", J::s("setdiscr"));
                x.set("place", place_json(tcx, place));
                x.set("v", J::Num(variant_index.as_u32() as i128));
                st.push(x);
            }
            StatementKind::StorageLive(_)
            | StatementKind::StorageDead(_)
            | StatementKind::Nop
            | StatementKind::FakeRead(..)
            | StatementKind::PlaceMention(..)
            | StatementKind::AscribeUserType(..)
            | StatementKind::Coverage(..)
            | StatementKind::ConstEvalCounter
            | StatementKind::BackwardIncompatibleDropHint { .. } => {}
            other => {
                let mut x = J::obj();
                x.set("s", J::s("other"));
                x.set("dbg", J::s(format!("{:?}", other)));
                st.push(x);
            }
        }
    }
    o.set("st", J::Arr(st));
    let mut t = J::obj();
    if let Some(term) = &bb.terminator {
        t.set("from_expansion", J::Bool(term.source_info.span.from_expansion()));
        match &term.kind {
            TerminatorKind::Goto { target } => {
                t.set("t", J::s("goto"));
                t.set("target", J::Num(target.as_u32() as i128));
            }
            TerminatorKind::SwitchInt { discr, targets } => {
                t.set("t", J::s("switch"));
                t.set("discr", operand_json(tcx, discr, env));
                let mut arms = Vec::new();
                for (v, b) in targets.iter() {
                    arms.push(J::Arr(vec![J::s(v.to_string()), J::Num(b.as_u32() as i128)]));
                }
                t.set("arms", J::Arr(arms));
                t.set("otherwise", J::Num(targets.otherwise().as_u32() as i128));
            }
            TerminatorKind::Return => t.set("t", J::s("return")),
            TerminatorKind::Unreachable => t.set("t", J::s("unreachable")),
            TerminatorKind::UnwindResume => t.set("t", J::s("resume")),
            TerminatorKind::UnwindTerminate(_) => t.set("t", J::s("terminate")),
            TerminatorKind::Drop { place, target, .. } => {
                t.set("t", J::s("drop"));
                t.set("place", place_json(tcx, place));
                t.set("target", J::Num(target.as_u32() as i128));
            }
            TerminatorKind::Call { func, args, destination, target, .. } => {
                t.set("t", J::s("call"));
                if let Some((did, gargs)) = func.const_fn_def() {
                    t.set("callee", callee_json(tcx, did, gargs, Some(env)));
                } else {
                    t.set("func", operand_json(tcx, func, env));
                }
                t.set("args", J::Arr(args.iter().map(|a| operand_json(tcx, &a.node, env)).collect()));
                t.set("dest", place_json(tcx, destination));
                match target {
                    Some(b) => t.set("target", J::Num(b.as_u32() as i128)),
                    None => t.set("target", J::Null),
                }
            }
            TerminatorKind::Assert { cond, expected, msg, target, .. } => {
                t.set("t", J::s("assert"));
                t.set("cond", operand_json(tcx, cond, env));
                t.set("expected", J::Bool(*expected));
                let kind = format!("{:?}", msg);
                t.set("msg", J::s(kind.split('(').next().unwrap_or("").to_string()));
                t.set("msg_full", J::s(kind));
                t.set("target", J::Num(target.as_u32() as i128));
            }
            TerminatorKind::FalseEdge { real_target, .. } => {
                t.set("t", J::s("goto"));
                t.set("target", J::Num(real_target.as_u32() as i128));
            }
            TerminatorKind::FalseUnwind { real_target, .. } => {
                t.set("t", J::s("goto"));
                t.set("target", J::Num(real_target.as_u32() as i128));
            }
            other => {
                t.set("t", J::s("other"));
                t.set("dbg", J::s(format!("{:?}", other)));
            }
        }
    }
    o.set("term", t);
    o
}

fn body_json<'tcx>(tcx: TyCtxt<'tcx>, body: &Body<'tcx>, env: TypingEnv<'tcx>) -> J {
    let mut o = J::obj();
    o.set("arg_count", J::Num(body.arg_count as i128));
    let mut locals = Vec::new();
    for (_i, d) in body.local_decls.iter_enumerated() {
        let mut l = J::obj();
        l.set("ty", ty_json(tcx, d.ty));
        l.set("mut", J::Bool(d.mutability.is_mut()));
        locals.push(l);
    }
    o.set("locals", J::Arr(locals));
    let mut names = Vec::new();
    for vdi in &body.var_debug_info {
        if let mir::VarDebugInfoContents::Place(p) = &vdi.value {
            let mut x = J::obj();
            x.set("name", J::s(vdi.name.as_str()));
            x.set("place", place_json(tcx, p));
            names.push(x);
        }
    }
    o.set("debug", J::Arr(names));
    let mut blocks = Vec::new();
    for (_b, data) in body.basic_blocks.iter_enumerated() {
        blocks.push(block_json(tcx, data, env));
    }
    o.set("blocks", J::Arr(blocks));
    o
}

fn vis_json(tcx: TyCtxt<'_>, did: DefId) -> J {
    match tcx.visibility(did) {
        ty::Visibility::Public => J::s("pub"),
        ty::Visibility::Restricted(m) => {
            if m.is_crate_root() {
                J::s("crate")
            } else {
                J::s(format!("in:{}", canon_path(tcx, m)))
            }
        }
    }
}

fn dump<'tcx>(tcx: TyCtxt<'tcx>) -> J {
    let mut root = J::obj();
    let crate_name = tcx.crate_name(LOCAL_CRATE).to_string();
    root.set("crate", J::s(crate_name));
    root.set("pointer_bits", J::Num(tcx.data_layout.pointer_size().bits() as i128));

    let mut items = Vec::new();
    let mut adts = Vec::new();
    let mut impls = Vec::new();
    let mut bodies = J::obj();

    let crate_items = tcx.hir_crate_items(());
    let mut all: Vec<LocalDefId> = crate_items.definitions().collect();
    all.sort_by_key(|d| d.local_def_index.as_u32());
    for ldid in all {
        let did = ldid.to_def_id();
        let kind = tcx.def_kind(did);
        let path = canon_path(tcx, did);
        match kind {
            DefKind::Enum | DefKind::Struct | DefKind::Union => {
                let adt = tcx.adt_def(did);
                let mut a = J::obj();
                a.set("path", J::s(path.clone()));
                a.set("kind", J::s(format!("{:?}", kind)));
                a.set("vis", vis_json(tcx, did));
                a.set("parent", J::s(canon_path(tcx, tcx.parent(did))));
                a.set("from_expansion", J::Bool(tcx.def_span(did).from_expansion()));
                if adt.is_enum() {
                    let repr = adt.repr();
                    a.set("repr_int", match repr.int {
                        Some(i) => J::s(format!("{:?}", i)),
                        None => J::Null,
                    });
                    let dty = repr.discr_type().to_ty(tcx);
                    a.set("discr_ty", ty_json(tcx, dty));
                    let mut vs = Vec::new();
                    for (vi, d) in adt.discriminants(tcx) {
                        let v = adt.variant(vi);
                        let mut x = J::obj();
                        x.set("name", J::s(v.name.as_str()));
                        x.set("idx", J::Num(vi.as_u32() as i128));
                        let size = tcx
                            .layout_of(TypingEnv::fully_monomorphized().as_query_input(dty))
                            .map(|l| l.size.bytes())
                            .unwrap_or(16);
                        x.set("discr", scalar_int_json(tcx, dty, d.val, size));
                        x.set("fields", J::Num(v.fields.len() as i128));
                        vs.push(x);
                    }
                    a.set("variants", J::Arr(vs));
                } else {
                    let mut fs = Vec::new();
                    for f in adt.all_fields() {
                        let mut x = J::obj();
                        x.set("name", J::s(f.name.as_str()));
                        x.set("vis", vis_json(tcx, f.did));
                        x.set("ty", ty_json(tcx, tcx.type_of(f.did).instantiate_identity().skip_norm_wip()));
                        fs.push(x);
                    }
                    a.set("fields", J::Arr(fs));
                }
                adts.push(a);
            }
            DefKind::Impl { of_trait } => {
                let mut im = J::obj();
                im.set("path", J::s(path.clone()));
                im.set("from_expansion", J::Bool(tcx.def_span(did).from_expansion()));
                let self_ty = tcx.type_of(did).instantiate_identity().skip_norm_wip();
                im.set("self_ty", ty_json(tcx, self_ty));
                if of_trait {
                    let tr = tcx.impl_trait_ref(did).instantiate_identity().skip_norm_wip();
                    im.set("trait", J::s(canon_path(tcx, tr.def_id)));
                    im.set("trait_args", args_json(tcx, tr.args));
                    im.set("trait_pretty", J::s(rustc_middle::ty::print::with_no_trimmed_paths!(format!("{}", tr))));
                }
                let mut assoc = Vec::new();
                for it in tcx.associated_items(did).in_definition_order() {
                    let mut x = J::obj();
                    x.set("name", J::s(it.name().as_str()));
                    x.set("path", J::s(canon_path(tcx, it.def_id)));
                    x.set("kind", J::s(format!("{:?}", tcx.def_kind(it.def_id))));
                    if matches!(tcx.def_kind(it.def_id), DefKind::AssocTy) {
                        let t = tcx.type_of(it.def_id).instantiate_identity().skip_norm_wip();
                        x.set("ty", ty_json(tcx, t));
                    }
                    assoc.push(x);
                }
                im.set("items", J::Arr(assoc));
                impls.push(im);
            }
            DefKind::Fn | DefKind::AssocFn | DefKind::Const { .. } | DefKind::AssocConst { .. } | DefKind::Static { .. } => {
                let mut it = J::obj();
                it.set("path", J::s(path.clone()));
                it.set("kind", J::s(format!("{:?}", kind).split(' ').next().unwrap_or("").to_string()));
                it.set("name", J::s(tcx.item_name(did).as_str()));
                it.set("vis", vis_json(tcx, did));
                it.set("parent", J::s(canon_path(tcx, tcx.parent(did))));
                it.set("from_expansion", J::Bool(tcx.def_span(did).from_expansion()));
                if matches!(kind, DefKind::Fn | DefKind::AssocFn) {
                    it.set("const_fn", J::Bool(tcx.is_const_fn(did)));
                    let sig = tcx.fn_sig(did).instantiate_identity().skip_norm_wip().skip_binder();
                    it.set("inputs", J::Arr(sig.inputs().iter().map(|t| ty_json(tcx, *t)).collect()));
                    it.set("output", ty_json(tcx, sig.output()));
                    it.set("unsafe", J::Bool(sig.safety().is_unsafe()));
                    it.set("generics", J::Num(tcx.generics_of(did).own_params.len() as i128));
                } else {
                    let t = tcx.type_of(did).instantiate_identity().skip_norm_wip();
                    it.set("ty", ty_json(tcx, t));
                    if let DefKind::Static { mutability, .. } = kind {
                        it.set("static_mut", J::Bool(mutability.is_mut()));
                        // a static whose type is not Freeze has interior mutability: process-global mutable state
                        it.set("freeze", J::Bool(t.is_freeze(tcx, TypingEnv::fully_monomorphized())));
                        it.set("ty_s", J::s(rustc_middle::ty::print::with_no_trimmed_paths!(t.to_string())));
                    }
                    if matches!(kind, DefKind::Const { .. } | DefKind::AssocConst { .. }) && tcx.generics_of(did).is_empty() {
                        match tcx.const_eval_poly(did) {
                            Ok(val) => {
                                let s = rustc_middle::ty::print::with_no_trimmed_paths!(format!("{}", CV(val, t)));
                                it.set("ctfe", J::s(s));
                            }
                            Err(e) => it.set("ctfe_err", J::s(format!("{:?}", e))),
                        }
                    }
                }
                items.push(it);
            }
            _ => {}
        }
    }

    // bodies
    let mut owners: Vec<LocalDefId> = tcx.mir_keys(()).iter().copied().collect();
    owners.sort_by_key(|d| d.local_def_index.as_u32());
    for ldid in owners {
        let did = ldid.to_def_id();
        let kind = tcx.def_kind(did);
        let env = TypingEnv::post_analysis(tcx, did);
        let path = canon_path(tcx, did);
        let mut b = J::obj();
        b.set("kind", J::s(format!("{:?}", kind).split(' ').next().unwrap_or("").to_string()));
        b.set("from_expansion", J::Bool(tcx.def_span(did).from_expansion()));
        let is_fn_like = matches!(kind, DefKind::Fn | DefKind::AssocFn | DefKind::Closure);
        let is_const_like = matches!(
            kind,
            DefKind::Const { .. } | DefKind::AssocConst { .. } | DefKind::Static { .. } | DefKind::AnonConst | DefKind::InlineConst
        );
        if is_fn_like {
            let body = tcx.optimized_mir(did);
            b.set("mir", body_json(tcx, body, env));
        } else if is_const_like {
            let body = tcx.mir_for_ctfe(ldid);
            b.set("mir", body_json(tcx, body, env));
        } else {
            continue;
        }
        if !matches!(kind, DefKind::AnonConst | DefKind::InlineConst) {
            let proms = tcx.promoted_mir(did);
            let mut pv = Vec::new();
            for p in proms.iter() {
                pv.push(body_json(tcx, p, env));
            }
            b.set("promoted", J::Arr(pv));
        }
        if kind == DefKind::Closure {
            b.set("parent", J::s(canon_path(tcx, tcx.parent(did))));
        }
        bodies.set(&path, b);
    }

    root.set("types", J::Arr(TYPES.with(|c| std::mem::take(&mut c.borrow_mut().1))));
    root.set("callees", J::Arr(CALLEES.with(|c| std::mem::take(&mut c.borrow_mut().1))));
    root.set("adts", J::Arr(adts));
    root.set("items", J::Arr(items));
    root.set("impls", J::Arr(impls));
    root.set("bodies", bodies);
    root
}

impl rustc_driver::Callbacks for Cb {
    fn after_analysis<'tcx>(&mut self, _c: &Compiler, tcx: TyCtxt<'tcx>) -> Compilation {
        let out_dir = match std::env::var("FACTDUMP_OUT") {
            Ok(d) => d,
            Err(_) => return Compilation::Continue,
        };
        let crate_name = tcx.crate_name(LOCAL_CRATE).to_string();
        if crate_name.starts_with("build_script") {
            return Compilation::Continue;
        }
        if tcx.dcx().has_errors().is_some() {
            return Compilation::Continue;
        }
        let j = dump(tcx);
        let mut s = String::new();
        j.write(&mut s);
        let path = format!("{}/{}.json", out_dir, crate_name);
        // one write per process
        std::fs::write(&path, s).expect("factdump: cannot write fact file");
        Compilation::Continue
    }
}

fn main() {
    let mut args: Vec<String> = std::env::args().collect();
    // RUSTC_WORKSPACE_WRAPPER: argv[1] is the path of the real rustc
    if args.len() > 1 && (args[1] == "rustc" || args[1].ends_with("/rustc")) {
        args.remove(1);
    }
    rustc_driver::run_compiler(&args, &mut Cb);
}
