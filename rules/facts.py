"""Loads a fact file written by factdump and gives instance-level views."""
import json, os
from corpus import decls as D

CORE_ALIASES = ('std::', 'alloc::')

class Crate:
    def __init__(self, path):
        with open(path) as f:
            self.j = json.load(f)
        self.name = self.j['crate']
        self.types = self.j['types']
        self.callees = self.j['callees']
        self.bodies = self.j['bodies']
        self.items = {it['path']: it for it in self.j['items']}
        self.adts = {a['path']: a for a in self.j['adts']}
        self.impls = self.j['impls']
        self.pointer_bits = self.j['pointer_bits']
        self._by_mod = None

    def T(self, i):
        return self.types[i] if isinstance(i, int) else i

    def C(self, i):
        return self.callees[i] if isinstance(i, int) else i

    def ty_s(self, i):
        return self.T(i)['s']

    def by_module(self, prefix):
        """everything whose path starts with prefix + '::'"""
        p = prefix + '::'
        return {
            'items': [it for k, it in self.items.items() if k.startswith(p)],
            'adts': [a for k, a in self.adts.items() if k.startswith(p)],
            'impls': [im for im in self.impls if im['path'].startswith(p)],
            'bodies': {k: b for k, b in self.bodies.items() if k.startswith(p)},
        }

def norm_core(path):
    for a in CORE_ALIASES:
        if path.startswith(a):
            return 'core::' + path[len(a):]
    return path

class Inst:
    """one derive instance: sidecar record + its slice of the crate facts"""
    def __init__(self, rec, crate):
        self.rec = rec
        self.id = rec['id']
        self.crate = crate
        # rustc calls a raw-identifier variant `r#type` plain `type`; its *name* (Ident::to_string) keeps the prefix
        vs = []
        for v in rec['decl']['variants']:
            if v['ident'].startswith('r#'):
                v = dict(v, src_ident=v['ident'], ident=v['ident'][2:])
            vs.append(v)
        self.decl = dict(rec['decl'], variants=vs)
        self.cfg = rec['cfg']
        self.feats = dict(rec['cfg']['features']) if rec['cfg'] else {}
        self.enum_name = self.decl.get('enum_name', 'E')
        top = '%s::%s' % (crate.name, self.id)
        in_body = self.decl.get('context') in D.BODY_CONTEXTS
        if in_body:
            # the enum is an item of a body (fn, block, anonymous const, method, closure): its path is whatever rustc calls that body
            cands = [k for k in crate.adts if k.startswith(top + '::') and k.endswith('::' + self.enum_name)]
            self.mod = cands[0][:-len(self.enum_name) - 2] if len(cands) == 1 else top + '::inner'
        else:
            self.mod = top + ('::inner' if 'MOD' in (self.decl['vis'] or '') else '')
        self.enum_path = self.mod + '::' + self.enum_name
        # the module that private items are private to (a body is not a module)
        self.priv_mod = top if in_body else self.mod
        sl = crate.by_module(self.mod)
        self.items = sl['items']
        self.adts = sl['adts']
        self.impls = sl['impls']
        self.bodies = sl['bodies']
        self.adt = crate.adts.get(self.enum_path)
        if self.decl.get('sibling'):
            # a second derive (enum F) lives in the same module: keep only what belongs to E
            def mentions_f(tj):
                t = crate.T(tj)
                pth = t.get('path', '')
                if pth.startswith(self.mod + '::F'):
                    return True
                return any(mentions_f(a) for a in t.get('args', []) if not (isinstance(a, dict) and a.get('k') == 'const'))
            keep = []
            for im in self.impls:
                if mentions_f(im['self_ty']) or any(mentions_f(a) for a in im.get('trait_args', []) if not (isinstance(a, dict) and a.get('k') == 'const')):
                    continue
                keep.append(im)
            dropped = {im['path'] for im in self.impls} - {im['path'] for im in keep}
            self.impls = keep
            self.bodies = {k: b for k, b in self.bodies.items() if not any(k.startswith(d + '::') for d in dropped)}
            self.items = [it for it in self.items if not any(it['path'].startswith(d + '::') for d in dropped)]
            self.adts = [a for a in self.adts if not a['path'].startswith(self.mod + '::F')]
        # specification side
        self.S = D.sorted_variants(self.decl)                      # variants by value
        self.values = [v['value'] for v in self.S]
        self.names = [D.decl_name(self.decl, v) for v in self.S]
        self.runs = D.runs_of(self.values)
        self.gapless = len(self.runs) == 1
        self.repr = self.decl['repr']
        self.bits = crate.pointer_bits if self.repr.endswith('size') else int(self.repr[1:])
        self.signed = self.repr[0] == 'i'
        self.by_ident = {v['ident']: v for v in self.decl['variants']}
        # variant index (declaration order) -> value, as rustc numbers them
        self.rustc_discr = None
        if self.adt and 'variants' in self.adt:
            self.rustc_discr = {v['name']: int(v['discr']) for v in self.adt['variants']}
            self.idx_to_value = {v['idx']: int(v['discr']) for v in self.adt['variants']}
            self.idx_to_ident = {v['idx']: v['name'] for v in self.adt['variants']}
        # the derive's inherent impl: from expansion, no trait, self type E
        self.inherent = [im for im in self.impls if 'trait' not in im and im['from_expansion'] and crate.T(im['self_ty']).get('path') == self.enum_path]
        self.assoc = {}
        for im in self.inherent:
            for it in im['items']:
                self.assoc[it['name']] = crate.items.get(it['path'])

    def describe(self):
        d = self.decl
        vs = ', '.join('%s%s%s' % (v['ident'], '' if v['lit'] is None else '=' + v['lit'], '' if v['rename'] is None else '~' + json.dumps(v['rename'], ensure_ascii=False)) for v in d['variants'][:12])
        if len(d['variants']) > 12:
            vs += ', ... (%d variants)' % len(d['variants'])
        return '#[repr(%s)] %s enum E {%s} %s' % (d['repr'], d['vis'], vs, ' '.join(D.render_attr(self.cfg)) if self.cfg else '')

    def feature_name(self, f):
        """the name under which feature f's function/const was requested (None if f not requested)"""
        if f not in self.feats:
            return None
        return self.feats[f].get('name', f)

    def trait_impls(self, trait_suffix, self_path=None):
        out = []
        for im in self.impls:
            if not im.get('trait', '').endswith(trait_suffix):
                continue
            if self_path is not None and self.crate.T(im['self_ty']).get('path') != self_path:
                continue
            out.append(im)
        return out

    def wrap(self, v):
        """value v reduced into the repr type (two's complement)"""
        m = 1 << self.bits
        v %= m
        if self.signed and v >= m >> 1:
            v -= m
        return v

def load_stage(stage_dir):
    """returns list of (Crate, [Inst])"""
    with open(os.path.join(stage_dir, 'instances.json')) as f:
        recs = json.load(f)
    by_crate = {}
    for r in recs:
        by_crate.setdefault(r['crate'], []).append(r)
    return by_crate
