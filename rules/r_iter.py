"""Iterator structs (C06, C07, C08): reduction to a trusted `core` iterator (forwarding rule + constructor-term
rule) or, for the next_and_back mode, to the verified next/next_back functions (cursor rules).

Why this decides the *histories* quantifier: a struct whose nine methods each forward to the same method of its
single field behaves, under every sequence of calls, exactly like that field; the field is a `core` iterator whose
content is fixed by the constructor term (trusted base: Map<RangeInclusive<R>,fn>, Copied<slice::Iter>,
array::IntoIter are double-ended, exact-size and fused).  For next_and_back the cursor rules establish the
invariant  "the remaining items are the `len` variants upward from `fwd` = downward from `bwd`":
  next():      len == 0 -> None, nothing written;   else returns old fwd, fwd := fwd.and_then(succ), len := len - 1
  next_back(): mirror image with bwd / pred
With succ/pred correct (C05) the yielded sequence from the front is a, succ(a), ... and len counts it down; once
len == 0 every call returns None and writes nothing (fused); size_hint/len report len exactly.
"""
from . import shapes as S, tables, ivl
from .mir import show
from .items import GEN_FILE, shape
from .r_next import check_step
from .r_asstr import peel, local_call

T_ITER = 'core::iter::traits::iterator::Iterator'
T_DEI = 'core::iter::traits::double_ended::DoubleEndedIterator'
T_ESI = 'core::iter::traits::exact_size::ExactSizeIterator'

BYREF = {'next', 'nth', 'size_hint', 'next_back', 'nth_back', 'len'}
BYVAL = {'fold', 'last', 'rfold', 'count', 'try_fold', 'try_rfold'}


def struct_kind(inst, spath):
    a = inst.crate.adts.get(spath)
    if a is None:
        return None, None
    fs = a.get('fields', [])
    if len(fs) == 1:
        return 'forward', a
    if len(fs) == 3:
        return 'cursor', a
    return 'other', a


def impl_methods(inst, spath, trait):
    out = []
    for im in inst.impls:
        if im.get('trait') == trait and inst.crate.T(im['self_ty']).get('path') == spath:
            for it in im['items']:
                if it['kind'] == 'AssocFn':
                    out.append((it['name'], it['path']))
    return out


def self_field(V, t, byref):
    """t is (a reference to) field k of self -> k"""
    t = V.strip(t)
    if byref:
        if t[0] != 'ref':
            return None
        t = V.strip(t[1])
        if t[0] == 'field':
            b = V.strip(t[1])
            if b == ('deref', ('arg', 0)) or (b[0] == 'mload' and b[1] == ('arg', 0)):
                return t[2]
        return None
    if t[0] == 'field' and V.strip(t[1]) == ('arg', 0):
        return t[2]
    return None


ITER_METHOD_NAMES = set('''next size_hint count last advance_by nth step_by chain zip intersperse intersperse_with map for_each filter filter_map enumerate peekable skip_while take_while
map_while skip take scan flat_map flatten map_windows fuse inspect by_ref collect try_collect collect_into partition partition_in_place is_partitioned try_fold try_for_each fold reduce
try_reduce all any find find_map try_find position rposition max min max_by_key max_by min_by_key min_by rev unzip copied cloned cycle array_chunks next_chunk sum product cmp cmp_by
partial_cmp partial_cmp_by eq eq_by ne lt le gt ge is_sorted is_sorted_by is_sorted_by_key next_back advance_back_by nth_back try_rfold rfold rfind len is_empty into_iter'''.split())


def check_no_inherent(inst, ctx, spath, feature):
    """the iterator struct has no inherent associated function named like an iterator method: in method-call syntax an inherent
    `len` / `next` / `count` ... would be chosen before the trait method the other rules decide, for every user of the iterator"""
    ok = True
    for im in inst.impls:
        if 'trait' in im or inst.crate.T(im['self_ty']).get('path') != spath:
            continue
        for it in im['items']:
            if it['name'] not in ITER_METHOD_NAMES:
                continue          # an inherent helper that shadows nothing (C15 decides whether it may be reachable)
            ctx.violation('inherent-shadow', inst, feature, 'the iterator struct %s has an inherent item `%s`: method calls resolve to it before any Iterator / DoubleEndedIterator / ExactSizeIterator method of that name' % (
                spath.split('::')[-1], it['name']), key='%s/inherent-shadow/%s' % (ctx.prop, feature), construct='src/feature/iter/mod.rs::extend_common / src/feature/names.rs')
            ok = False
    if ok:
        ctx.ok('inherent-shadow', inst)
    return ok


def check_forwarding(inst, V, ctx, spath, feature):
    """every method of the Iterator / DoubleEndedIterator / ExactSizeIterator impls forwards to the same method of field 0"""
    con = 'src/feature/iter/mod.rs::extend_common'
    ok = check_no_inherent(inst, ctx, spath, feature)
    n = 0
    for trait in (T_ITER, T_DEI, T_ESI):
        for name, path in impl_methods(inst, spath, trait):
            n += 1
            b = V.I.body(path)
            def bad(what, kind='refuted'):
                ctx.violation('forwarding', inst, '%s::%s' % (trait.split('::')[-1], name), what, key='%s/forwarding/%s/%s' % (ctx.prop, feature, name), construct=con, kind=kind)
            alts = b.ret_alternatives()
            if len(alts) != 1 or b.loops() or any(len(b.succ[x]) > 1 for x in b.reach):
                bad('%s is overridden with a body that is not a single forwarding call (%d return definitions%s)' % (name, len(alts), ', loop' if b.loops() else ', branches'), 'unrecognised'); ok = False; continue
            t = V.strip(alts[0][1])
            want = '%s::%s' % (trait, name)
            byref = name in BYREF
            # accepted equivalents (each with its reason)
            if name == 'len' and t[0] == 'field' and t[2] == 0:
                inner = V.strip(t[1])
                if inner[0] == 'call' and inner[1] == T_ITER + '::size_hint' and self_field(V, inner[2][0], True) == 0:
                    # size_hint().0 of the inner core iterator is exact (RangeInclusive shorter than usize::MAX, slices, arrays)
                    ctx.ok('forwarding', inst); continue
            if t[0] != 'call':
                bad('%s returns %s instead of forwarding to self.inner.%s(..)' % (name, show(t), name)); ok = False; continue
            if name == 'last' and t[1] == T_DEI + '::next_back':
                # last() == next_back() on a double-ended iterator (self is taken by value: `last(mut self)` borrows its own field)
                a0 = V.strip(t[2][0])
                f0 = V.strip(a0[1]) if a0[0] == 'ref' else None
                if self_field(V, t[2][0], True) == 0 or (f0 is not None and f0[0] == 'field' and f0[2] == 0 and V.strip(f0[1]) == ('arg', 0)):
                    ctx.ok('forwarding', inst); continue
            if t[1] != want:
                bad('%s forwards to %s instead of %s of the inner iterator' % (name, '::'.join((t[1] or '?').split('::')[-2:]), '::'.join(want.split('::')[-2:]))); ok = False; continue
            if self_field(V, t[2][0], byref) != 0:
                bad('%s calls %s on %s instead of on self.inner' % (name, name, show(t[2][0]))); ok = False; continue
            rest = t[2][1:]
            if any(V.strip(a) != ('arg', i + 1) for i, a in enumerate(rest)) or len(rest) != b.nargs - 1:
                bad('%s passes (%s) instead of its own parameters in order' % (name, ', '.join(show(a) for a in rest))); ok = False; continue
            ctx.ok('forwarding', inst)
    if n == 0:
        ctx.violation('forwarding', inst, feature, 'no iterator trait methods found for %s' % spath, kind='unrecognised', construct=con)
        return False
    return ok


def closure_is_transmute(V, clo):
    """closure (possibly coerced to fn pointer) whose body is transmute::<E>(param)"""
    clo = V.strip(clo)
    if clo[0] == 'fnptr':
        clo = V.strip(clo[1])
    if clo[0] != 'agg' or not clo[1].startswith('closure|'):
        return None
    path = clo[1].split('|', 1)[1]
    b = V.I.body(path)
    if b is None:
        return None
    alts = b.ret_alternatives()
    if len(alts) == 1 and not b.loops() and alts[0][1] == ('transmute', V.inst.enum_path, ('arg', 1)):
        return path
    return False


def check_inner_ctor(inst, V, ctx, t, feature, item, bounds=None):
    """t = the value stored in the single field of a forwarding struct.
    bounds: None for iter()/names() (whole set) or (s_term, e_term, kind) handled by the caller for range()."""
    con = GEN_FILE[feature]
    def bad(what, kind='refuted', cls=''):
        ctx.violation('constructor', inst, item, what, key='%s/constructor/%s%s' % (ctx.prop, item, cls), construct=con, kind=kind)
    src = V.iter_source(t)
    if src is None:
        bad('the inner iterator %s is not one of: (lo..=hi).map(transmute), table.iter().copied(), [variants].into_iter()' % show(t), 'unrecognised'); return False
    if feature == 'names':
        if src == ('copied', ('tab', src[1][1], 'slice')) and src[1][1][0] == 'T2':
            ctx.ok('constructor', inst); return True
        bad('names() iterates %r instead of the whole name table front to back' % (src,)); return False
    if src[0] == 'map' and src[1] and src[1][0] == 'range':
        r = closure_is_transmute(V, src[2])
        if not r:
            bad('range-mode iterator maps through something other than transmute(x): %s' % show(src[2]), 'unrecognised'); return False
        lo, hi = V.F.try_fold(src[1][1]), V.F.try_fold(src[1][2])
        if not lo or not hi or lo[0] != 'int' or hi[0] != 'int':
            bad('range bounds are not constants: %s ..= %s' % (show(src[1][1]), show(src[1][2])), 'unrecognised'); return False
        if not inst.gapless:
            bad('range-mode iterator on an enum with holes: every integer of %d..=%d is transmuted' % (lo[2], hi[2]), cls='/holes'); return False
        if (lo[2], hi[2]) != (inst.values[0], inst.values[-1]) or lo[1] != inst.repr:
            bad('iter() ranges over %d..=%d (%s), required %d..=%d: the smallest and largest discriminant' % (lo[2], hi[2], lo[1], inst.values[0], inst.values[-1]), cls='/T5'); return False
        ctx.ok('constructor', inst); return True
    if src[0] == 'copied' and src[1][0] == 'tab' and src[1][1][0] == 'T3' and src[1][2] == 'slice':
        ctx.ok('constructor', inst); return True
    if src[0] == 'tab' and src[1][0] == 'inline' and src[2] == 'array':
        v = src[1][1]
        got = [x[2] if x[0] == 'variant' else None for x in v[1]]
        want = [x['ident'] for x in inst.S]
        if got != want:
            i = next((i for i in range(min(len(got), len(want))) if got[i] != want[i]), min(len(got), len(want)))
            bad('inline variant array is not the variants in discriminant order: index %d is %s, required %s (len %d vs %d)' % (i, got[i] if i < len(got) else None, want[i] if i < len(want) else None, len(got), len(want))); return False
        ctx.ok('constructor', inst); return True
    bad('the inner iterator %r does not enumerate all variants in discriminant order' % (src,)); return False


# ------------------------------------------------------------------ cursor (next_and_back)
def _pos(path, at):
    b, i = at
    return (path.index(b), 10 ** 9 if i == 'T' else i)


def cursor_roles(inst, V, spath):
    """field indices (fwd, bwd, len) from how Iterator::next / DoubleEndedIterator::next_back use them"""
    a = inst.crate.adts[spath]
    usize = [i for i, f in enumerate(a['fields']) if inst.crate.T(f['ty'])['k'] == 'int']
    roles = {}
    for trait, name, role in ((T_ITER, 'next', 'fwd'), (T_DEI, 'next_back', 'bwd')):
        for n, p in impl_methods(inst, spath, trait):
            if n != name:
                continue
            b = V.I.body(p)
            for site, t in b.ret_alternatives():
                t = V.strip(t)
                if t[0] == 'field' and t[1][0] == 'mload':
                    roles[role] = t[2]
    if len(usize) == 1:
        roles['len'] = usize[0]
    return roles


def check_cursor_method(inst, V, ctx, path, c, L, direction, checked_steps):
    """Iterator::next (direction fwd) / DoubleEndedIterator::next_back (bwd) of the cursor struct"""
    name = 'next' if direction == 'fwd' else 'next_back'
    con = 'src/feature/iter/next_and_back.rs::iter_next_and_back (%s)' % name
    b = V.I.body(path)
    def bad(what, kind='refuted', cls=''):
        ctx.violation('cursor', inst, name, what, key='%s/cursor/%s%s' % (ctx.prop, name, cls), construct=con, kind=kind)
    if b.loops():
        bad('loop in %s' % name, 'unrecognised'); return False
    wt = b.writes_through.get(1, [])
    paths = [p for p in S.simple_paths(b) if p[1] != 'continue']
    seen_none = seen_some = False
    def try_checked_sub(t):
        """t = Try::branch(len.checked_sub(1)) with len read at entry -> t (stripped), else None"""
        t = V.strip(t)
        if t[0] == 'call' and str(t[1]).endswith('Try::branch') and len(t[2]) == 1:
            x = V.strip(t[2][0])
            if x[0] == 'call' and x[1] == 'int::checked_sub' and len(x[2]) == 2 and x[2][1] == ('int', 'usize', 1):
                return t, x[2][0]
        return None
    for path_blocks, kind, _ in paths:
        gs = S.path_guards(b, path_blocks)
        if kind == 'unreachable' and gs and gs[-1][1][0] == 'sw' and gs[-1][1][1][0] == 'discr' and gs[-1][1][2][0] == 'not' and len(gs[-1][1][2][1]) == 2:
            continue          # the arm rustc adds after the two variants of a two-variant enum (ControlFlow, Option) have been matched
        if kind != 'return':
            bad('a path of %s ends in a %s' % (name, kind), 'undischarged'); return False
        writes = [(bb, i) for (bb, i) in wt if bb in path_blocks]
        def entry_load(t, k):
            """t reads field k of *self at a point before any write to field k on this path"""
            t = V.strip(t)
            if not (t[0] == 'field' and t[2] == k and t[1][0] == 'mload' and t[1][1] == ('arg', 0)):
                return False
            for (bb, i) in writes:
                st = b.blocks[bb]['st'][i]
                wk = [x.get('i') for x in st['place']['pr'][1:]]
                if wk == [k] and _pos(path_blocks, (bb, i)) < _pos(path_blocks, t[1][2]):
                    return False
            return True
        len_zero = None
        ovf_ok = False
        new_len = None          # the term that denotes len - 1 on this path when the test itself computes it
        cur_arm = None          # 'Some' / 'None' when the path matched on the old cursor (a `match` instead of and_then)
        for blk, g in gs:
            if g[0] == 'sw' and g[1][0] == 'discr':
                tc = try_checked_sub(g[1][1])
                if tc is not None:
                    tb, lenr = tc
                    if entry_load(lenr, L) and g[2] in (('in', (0,)), ('in', (1,))):
                        # `self.len = self.len.checked_sub(1)?`: Continue(len - 1) iff len >= 1, Break(None) iff len == 0
                        len_zero = g[2] == ('in', (1,))
                        if not len_zero:
                            new_len = ('field', ('downcast', tb, 'Continue'), 0)
                            ovf_ok = True
                        continue
                if entry_load(g[1][1], c) and S.option_arm(g) is not None:
                    cur_arm = S.option_arm(g)       # `match old_cursor { Some(x) => x.step(), None => None }`
                    continue
            if g[0] == 'sw' and entry_load(g[1], L) and g[2] in (('in', (0,)), ('not', (0,))):
                # `match self.len { 0 => .., _ => .. }`
                len_zero = g[2] == ('in', (0,))
                if not len_zero:
                    ovf_ok = True
                continue
            if g[0] == 'sw' and g[1][0] == 'bin' and g[1][1] in ('Eq', 'Ne'):
                x, y = g[1][2], g[1][3]
                if entry_load(x, L) and y == ('int', 'usize', 0):
                    tv = S.sw_true(g)
                    len_zero = tv if g[1][1] == 'Eq' else (not tv)
                    continue
            if g[0] == 'assert' and g[1][0] == 'ovf' and g[1][1] == 'Sub' and entry_load(g[1][2], L) and g[1][3] == ('int', 'usize', 1) and g[2] is False:
                ovf_ok = True     # len - 1 cannot underflow: this path is guarded by len != 0
                continue
            bad('%s branches on %s; the rule set knows only the test `len == 0`' % (name, show(g[1])), 'unrecognised'); return False
        val = V.strip(S.path_return(b, path_blocks))
        if val[0] == 'call' and str(val[1]).endswith('FromResidual::from_residual') and len(val[2]) == 1:
            r0 = V.strip(val[2][0])
            if r0[0] == 'field' and r0[1][0] == 'downcast' and r0[1][2] == 'Break' and try_checked_sub(r0[1][1]) is not None:
                val = ('agg', 'adt|core::option::Option|None', ())       # `None?` of an Option-returning function is None
        if len_zero is True:
            if not S.is_none(val):
                bad('%s returns %s when len == 0, required None' % (name, show(val))); return False
            if writes:
                bad('%s writes to its state after it is exhausted (not fused)' % name); return False
            seen_none = True
            continue
        if len_zero is None:
            bad('%s has a path that does not test `len == 0`: after the last item it would keep stepping (not fused, len underflow)' % name, cls='/no-guard'); return False
        # the yielding path
        if not entry_load(val, c):
            bad('%s returns %s, required the old value of its %s cursor' % (name, show(val), 'front' if direction == 'fwd' else 'back'), cls='/wrong-cursor'); return False
        got = {}
        for (bb, i) in writes:
            st = b.blocks[bb]['st'][i]
            wk = [x.get('i') for x in st['place']['pr'][1:]]
            if len(wk) != 1 or wk[0] in got:
                bad('unexpected write to the iterator state', 'unrecognised'); return False
            got[wk[0]] = V.strip(S.resolve_phi(V.strip(b.rvalue(st['rv'], (bb, i))), path_blocks))     # a value joined from the arms of a `match`: the arm on this path
        if set(got) != {c, L}:
            missing = {c, L} - set(got)
            extra = set(got) - {c, L}
            bad('%s must update exactly its own cursor and len; %s%s' % (name, ('it does not update field(s) %s ' % sorted(missing)) if missing else '', ('it writes field(s) %s' % sorted(extra)) if extra else ''), cls='/writes'); return False
        lt = got[L]
        if new_len is not None and lt == new_len:
            pass                                     # the Continue payload of len.checked_sub(1): len - 1, cannot underflow
        elif lt[0] == 'call' and lt[1] == 'int::wrapping_sub' and entry_load(lt[2][0], L) and lt[2][1] == ('int', 'usize', 1) and ovf_ok:
            pass                                     # wrapping_sub(1) under len != 0 is len - 1
        elif not (lt[0] == 'bin' and lt[1] in ('Sub_checked', 'Sub') and entry_load(lt[2], L) and lt[3] == ('int', 'usize', 1)):
            bad('%s sets len to %s, required len - 1' % (name, show(lt)), 'refuted' if lt[0] in ('int', 'bin') else 'unrecognised', cls='/len'); return False
        elif lt[1] == 'Sub_checked' and not ovf_ok:
            bad('len - 1 may underflow', 'undischarged'); return False
        ct = got[c]
        if cur_arm == 'None':
            # `match old_cursor { .., None => None }`: what and_then gives for None
            if not S.is_none(ct):
                bad('%s sets its cursor to %s when the old cursor is None, required None' % (name, show(ct))); return False
            seen_some = True
            continue
        if cur_arm == 'Some':
            lc = local_call(V, ct)
            a0 = V.strip(lc[1][0]) if lc is not None and len(lc[1]) == 1 else None
            if not (a0 is not None and a0[0] == 'field' and a0[2] == 0 and a0[1][0] == 'downcast' and a0[1][2] == 'Some' and entry_load(a0[1][1], c)):
                bad('%s sets its cursor to %s, required step(x) for the old cursor Some(x)' % (name, show(ct)), 'unrecognised'); return False
            fpath = lc[0]
        else:
            if not (ct[0] == 'call' and ct[1] == S.OPT_AND_THEN and entry_load(ct[2][0], c)):
                bad('%s sets its cursor to %s, required old_cursor.and_then(step)' % (name, show(ct)), 'unrecognised'); return False
            clo = V.strip(ct[2][1])
            if clo[0] != 'agg' or not clo[1].startswith('closure|'):
                bad('cursor step is not a closure', 'unrecognised'); return False
            cb = V.I.body(clo[1].split('|', 1)[1])
            calts = cb.ret_alternatives()
            lc = local_call(V, calts[0][1]) if len(calts) == 1 and not cb.loops() else None
            if lc is None or len(lc[1]) != 1 or V.strip(lc[1][0]) != ('arg', 1):
                bad('cursor step closure is not `|x| x.step()`', 'unrecognised'); return False
            fpath = lc[0]
        key = (fpath, direction)
        if key not in checked_steps:
            it = inst.crate.items.get(fpath)
            checked_steps[key] = bool(check_step(inst, V, ctx, V.I.body(fpath), direction, it['name'] if it else fpath, 'next' if direction == 'fwd' else 'next_back'))
        if not checked_steps[key]:
            return False
        seen_some = True
    if not (seen_none and seen_some):
        bad('%s lacks the %s path' % (name, 'exhausted' if not seen_none else 'yielding'), 'unrecognised'); return False
    ctx.ok('cursor', inst)
    return True


def check_cursor(inst, V, ctx, spath, checked_steps):
    con = 'src/feature/iter/next_and_back.rs::iter_next_and_back'
    roles = cursor_roles(inst, V, spath)
    if set(roles) != {'fwd', 'bwd', 'len'} or len(set(roles.values())) != 3:
        ctx.violation('cursor', inst, 'struct', 'cannot identify front cursor, back cursor and remaining-count fields from next()/next_back(): %r' % roles, kind='unrecognised', key='%s/cursor/roles' % ctx.prop, construct=con)
        return None
    ok = check_no_inherent(inst, ctx, spath, 'iter')
    allowed = {T_ITER: {'next', 'size_hint'}, T_DEI: {'next_back'}, T_ESI: {'len'}}
    for trait in (T_ITER, T_DEI, T_ESI):
        for name, path in impl_methods(inst, spath, trait):
            if name not in allowed[trait]:
                ctx.violation('cursor', inst, name, 'the next_and_back iterator overrides %s::%s; the rule set has no rule for this override (the default derived from next/next_back is what the invariant argument covers)' % (trait.split('::')[-1], name),
                              kind='unrecognised', key='%s/cursor/override/%s' % (ctx.prop, name), construct=con)
                ok = False
                continue
            b = V.I.body(path)
            if name == 'next':
                ok &= check_cursor_method(inst, V, ctx, path, roles['fwd'], roles['len'], 'fwd', checked_steps)
            elif name == 'next_back':
                ok &= check_cursor_method(inst, V, ctx, path, roles['bwd'], roles['len'], 'bwd', checked_steps)
            else:
                alts = b.ret_alternatives()
                t = V.strip(alts[0][1]) if len(alts) == 1 else None
                ld = ('field', ('deref', ('arg', 0)), roles['len'])
                want = ld if name == 'len' else ('agg', 'tuple', (ld, ('agg', 'adt|core::option::Option|Some', (ld,))))
                if t != want or b.loops():
                    ctx.violation('cursor', inst, name, '%s returns %s, required %s' % (name, show(t) if t else '?', 'len' if name == 'len' else '(len, Some(len))'), key='%s/cursor/%s' % (ctx.prop, name), construct=con)
                    ok = False
                else:
                    ctx.ok('cursor', inst)
    return roles if ok else None
