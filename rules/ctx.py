"""Bookkeeping shared by all rules: the log of rule applications (which *is* the evidence) and violations."""
import json

class Ctx:
    def __init__(self, prop):
        self.prop = prop
        self.applications = 0
        self.by_rule = {}
        self.violations = []
        self.samples = []
        self.obligations = 0
        self.discharged = 0
        self.programs = set()
        self.nontrivial = set()
        self.errors = []           # checker errors (fail closed), not violations
        self.facts = set()         # cross-instance facts (merged as a set; judged by the property's main)

    def ok(self, rule, inst=None, n=1):
        self.applications += n
        self.by_rule[rule] = self.by_rule.get(rule, 0) + n
        if inst is not None:
            self.programs.add(inst.id)

    def violation(self, rule, inst, item, detail, key=None, construct=None, kind='refuted'):
        """kind: refuted | undischarged | unrecognised | witness-rejected"""
        self.applications += 1
        self.by_rule[rule] = self.by_rule.get(rule, 0) + 1
        v = {
            'property': self.prop, 'rule': rule, 'kind': kind, 'item': item, 'detail': detail,
            'key': key or '%s/%s/%s' % (self.prop, rule, item),
            'construct': construct,
        }
        if inst is not None:
            self.programs.add(inst.id)
            v['instance'] = inst.id
            v['declaration'] = inst.describe()
            v['rec'] = inst.rec
        self.violations.append(v)

    def obligation(self, discharged, n=1):
        self.obligations += n
        if discharged:
            self.discharged += n

    def sample(self, s, limit=6):
        if len(self.samples) < limit:
            self.samples.append(s)

    def error(self, msg):
        self.errors.append(msg)

    def merge(self, o):
        self.applications += o.applications
        for k, v in o.by_rule.items():
            self.by_rule[k] = self.by_rule.get(k, 0) + v
        self.violations += o.violations
        for s in o.samples:
            self.sample(s)
        self.obligations += o.obligations
        self.discharged += o.discharged
        self.programs |= o.programs
        self.nontrivial |= o.nontrivial
        self.errors += o.errors
        self.facts |= getattr(o, 'facts', set())
