"""as_str and its delegating traits (C03): the returned string is the variant's name, for every variant."""
from . import ivl, shapes as S, tables
from .pa import PA
from .scan import Scanner, Unrecognised, mentions
from .mir import show
from .items import GEN_FILE, shape

def spec_pos(inst):
    """position of a declared value in discriminant order, as a PA over the declared set"""
    pieces, before = [], 0
    for lo, hi in inst.runs:
        pieces.append((lo, hi, before - lo))
        before += hi - lo + 1
    return PA(pieces, 'usize')

def name_of(inst):
    return {v: n.encode('utf8') for v, n in zip(inst.values, inst.names)}

def declared_in(inst, region):
    out = []
    for a, b in region:
        # declared values inside [a,b]
        for lo, hi in inst.runs:
            x, y = max(a, lo), min(b, hi)
            if x <= y:
                out.append((x, y))
    return out

def check_as_str(inst, V, ctx, body, item, feature='as_str'):
    var = ('discr', ('arg', 0))
    dom = ivl.norm(inst.runs)
    con = '%s [%s]' % (GEN_FILE['as_str'], shape(inst))
    def bad(rule, what, kind='refuted', cls=''):
        ctx.violation(rule, inst, item, what, key='%s/%s/as_str/%s%s' % (ctx.prop, rule, shape(inst), cls), construct=con, kind=kind)
    sc = None
    try:
        sc = Scanner(V, body, var, dom)
        res = sc.run()
    except Unrecognised as e:
        if sc is not None and sc.ub:
            bad('unchecked', 'for discriminants %s: %s' % (ivl.show(sc.ub[0][0]), sc.ub[0][1]), 'undischarged'); return None
        bad('shape', 'the body is not a name lookup the rule set understands: %s' % e, 'unrecognised'); return None
    for region, what in sc.ub:
        bad('unchecked', 'for discriminants %s: %s' % (ivl.show(region), what), 'undischarged'); return None
    for region, what in sc.panics:
        bad('panic-edge', 'as_str panics for the variants with discriminants %s: %s' % (ivl.show(region), what), 'undischarged'); return None
    names = name_of(inst)
    pos = spec_pos(inst)
    covered = []
    for region, kind, val, st, path in res:
        if kind != 'return':
            bad('panic-edge', 'for discriminants %s control reaches a %s' % (ivl.show(region), 'panic' if kind == 'diverge' else 'block marked unreachable'), 'undischarged'); return None
        covered = ivl.union(covered, region)
        if val[0] == 'str':
            for a, b in region:
                for x in range(a, b + 1):
                    if names[x] != val[1]:
                        bad('name', 'as_str of the variant with discriminant %d returns %r, required %r' % (x, val[1].decode('utf8', 'replace'), names[x].decode('utf8', 'replace'))); return None
            continue
        if val[0] == 'index':
            tab = V.table_ref(val[1])
            if not tab or tab[0] != 'T2':
                bad('shape', 'indexes %s, which is not the name table' % show(val[1]), 'unrecognised'); return None
            tv = V.F.try_fold(('named', tab[1]))
            if tv is None or tv[0] != 'array':
                bad('shape', 'name table does not fold', 'unrecognised'); return None
            try:
                f = sc.affine(val[2], region=region)
            except Unrecognised as e:
                bad('shape', str(e), 'unrecognised'); return None
            x = f.equal_on(pos, region)
            if x is not None:
                # index differs from the position: decide by the names actually reached
                n = len(tv[1])
                for a, b in region:
                    for y in range(a, b + 1):
                        i = f.at(y)
                        got = tv[1][i][1] if 0 <= i < n and tv[1][i][0] == 'str' else None
                        if got != names[y]:
                            bad('index', 'as_str of the variant with discriminant %d reads name_table[%d]%s, required index %d (%r)' % (
                                y, i, (' = %r' % got.decode('utf8', 'replace')) if got is not None else ' (out of bounds: panics)', pos.at(y), names[y].decode('utf8', 'replace')),
                                cls='/neg' if y < 0 else ''); return None
            continue
        bad('shape', 'for discriminants %s the function returns %s' % (ivl.show(region), show(val)), 'unrecognised'); return None
    if covered != dom:
        ctx.error('as_str regions do not cover the declared set in %s' % inst.id); return None
    ctx.ok('as_str-name', inst)
    return True

def peel(V, t):
    while True:
        t = V.strip(t)
        if t[0] in ('ref', 'deref'):
            t = t[1]; continue
        return t

def local_call(V, t):
    """t is a call of a function defined in the witness crate -> (def path, args) else None"""
    t = peel(V, t)
    if t[0] == 'call' and t[3] is not None:
        c = V.inst.crate.C(t[3])
        if c and c['local']:
            return c['path'], t[2]
    return None

def check_delegation(inst, V, ctx, fn_path, feature, checked):
    """Debug/Display: fmt(self, f) = f.write_str(as_str(*self)) ; IntoStr: from(v) = as_str(v).
    `checked` caches verdicts of as_str bodies already analysed."""
    I = V.I
    b = I.body(fn_path)
    con = GEN_FILE[feature]
    def bad(what, kind='unrecognised'):
        ctx.violation('delegation', inst, feature, what, key='%s/delegation/%s' % (ctx.prop, feature), construct=con, kind=kind)
    alts = b.ret_alternatives()
    if len(alts) != 1 or b.loops():
        bad('%s has %d return definitions; expected a single delegation to as_str' % (feature, len(alts))); return
    t = V.strip(alts[0][1])
    if feature in ('Debug', 'Display'):
        # Formatter::pad(s) writes exactly s when no width/precision is requested (plain `{}` / `{:?}`), so it is an
        # accepted equivalent of write_str for the property's format!("{}", v) == name
        if t[0] != 'call' or t[1] not in (S.WRITE_STR, 'core::fmt::Formatter::pad'):
            bad('fmt returns %s, required the result of Formatter::write_str(f, as_str(*self))' % show(t)); return
        if peel(V, t[2][0]) != ('arg', 1):
            bad('write_str is called on %s instead of the formatter argument' % show(t[2][0])); return
        inner = t[2][1]
    else:
        inner = t
    lc = local_call(V, inner)
    if lc is None:
        k = peel(V, inner)
        if k[0] == 'str':
            bad('%s yields the constant %r for every variant' % (feature, k[1].decode('utf8', 'replace')), 'refuted')
        else:
            bad('%s yields %s, required as_str(self)' % (feature, show(inner)))
        return
    path, args = lc
    if len(args) != 1 or peel(V, args[0]) != ('arg', 0):
        bad('the delegate is called with %s instead of self' % ', '.join(show(a) for a in args)); return
    it = inst.crate.items.get(path)
    if it is None or it['kind'] != 'AssocFn':
        bad('delegate %s is not a function of the derive impl' % path); return
    if path not in checked:
        checked[path] = check_as_str(inst, V, ctx, I.body(path), it['name'])
    if checked[path]:
        ctx.ok('delegation', inst)
