"""E4 core (DESIGN.md 3.4, 4.1, 4.2): CFG, dominators, reaching definitions and *terms* over dumped MIR.

A term is an immutable tuple tree describing how a value is computed from the
function's arguments and constants.  Copies, moves, temporaries and same-type
casts vanish, so rules written over terms are blind to naming, `let`
extraction, parenthesisation and statement order.

Nothing in here executes derived code: calls into `core` are never entered;
they stay as ('call', key, args) nodes that the rule modules interpret through
the summary table (rules/summaries.py).
"""
import sys

sys.setrecursionlimit(10000)

UNKNOWN = 'unknown'

# callees whose result depends only on their arguments (no state): their call terms carry no site
PURE = {
    'int::wrapping_sub', 'int::wrapping_add', 'core::ops::range::RangeInclusive::new',
    'core::ops::range::RangeInclusive::contains', 'core::ops::range::RangeInclusive::start',
    'core::ops::range::RangeInclusive::end', 'core::cmp::PartialEq::eq', 'core::cmp::PartialEq::ne',
    'slice::iter', 'core::iter::traits::collect::IntoIterator::into_iter',
    'core::iter::traits::iterator::Iterator::enumerate', 'core::iter::traits::iterator::Iterator::zip',
    'core::iter::traits::iterator::Iterator::copied', 'core::iter::traits::iterator::Iterator::map',
    'core::iter::traits::iterator::Iterator::rev',
    'core::option::Option::map', 'core::option::Option::and_then', 'core::option::Option::unwrap_unchecked',
    'core::ops::index::Index::index', 'core::convert::From::from', 'core::convert::Into::into',
    'core::clone::Clone::clone',
}


def callee_key(crate, c):
    """normalised name of a callee: trait methods by trait path, inherent methods by self-type kind"""
    c = crate.C(c)
    if c is None:
        return None
    if 'trait' in c:
        return '%s::%s' % (c['trait'], c['name'])
    if 'impl_self' in c and 'impl_trait' not in c:
        st = crate.T(c['impl_self'])
        k = st['k']
        if k == 'int':
            return 'int::%s' % c['name']
        if k == 'adt':
            return '%s::%s' % (st['path'], c['name'])
        if k in ('slice', 'array', 'str', 'bool', 'char'):
            return '%s::%s' % (k, c['name'])
        return '%s::%s' % (st['s'], c['name'])
    if 'impl_trait' in c:
        return '%s::%s' % (c['impl_trait'], c['name'])
    return c['path']


class Body:
    def __init__(self, crate, path, mir, owner=None):
        self.crate = crate
        self.path = path
        self.owner = owner or path        # for promoteds: the function they belong to
        self.mir = mir
        self.blocks = mir['blocks']
        self.nb = len(self.blocks)
        self.nargs = mir['arg_count']
        self.locals = mir['locals']
        self._build_cfg()
        self._build_defs()
        self._rin_cache = {}
        self._term_cache = {}
        self._guard_cache = {}
        self._blk_defs = {}
        self._inprogress = set()

    # ------------------------------------------------------------------ CFG
    def _build_cfg(self):
        succ = []
        for b in self.blocks:
            t = b['term']
            k = t.get('t')
            if b['cleanup']:
                succ.append([]); continue
            if k == 'goto':
                s = [t['target']]
            elif k == 'switch':
                s = [a[1] for a in t['arms']] + [t['otherwise']]
            elif k in ('call', 'assert', 'drop'):
                s = [t['target']] if t.get('target') is not None else []
            else:
                s = []
            # dedupe, keep order
            seen = []
            for x in s:
                if x not in seen and not self.blocks[x]['cleanup']:
                    seen.append(x)
            succ.append(seen)
        self.succ = succ
        self.pred = [[] for _ in range(self.nb)]
        for b, ss in enumerate(succ):
            for s in ss:
                self.pred[s].append(b)
        # reachable blocks + reverse postorder
        order, seen = [], set()
        stack = [(0, iter(succ[0]))]
        seen.add(0)
        while stack:
            b, it = stack[-1]
            adv = False
            for s in it:
                if s not in seen:
                    seen.add(s); stack.append((s, iter(succ[s]))); adv = True; break
            if not adv:
                order.append(b); stack.pop()
        self.rpo = order[::-1]
        self.reach = seen
        # dominators (Cooper-Harvey-Kennedy)
        idx = {b: i for i, b in enumerate(self.rpo)}
        idom = {0: 0}
        changed = True
        while changed:
            changed = False
            for b in self.rpo[1:]:
                ps = [p for p in self.pred[b] if p in idom]
                if not ps:
                    continue
                new = ps[0]
                for p in ps[1:]:
                    f1, f2 = p, new
                    while f1 != f2:
                        while idx[f1] > idx[f2]:
                            f1 = idom[f1]
                        while idx[f2] > idx[f1]:
                            f2 = idom[f2]
                    new = f1
                if idom.get(b) != new:
                    idom[b] = new; changed = True
        self.idom = idom

    def dominates(self, a, b):
        """block a dominates block b"""
        if b not in self.idom:
            return False
        while True:
            if a == b:
                return True
            if b == 0:
                return False
            b = self.idom[b]

    def can_reach(self, a, b, avoid=()):
        """is there a path a -> ... -> b (length >= 0) not passing through blocks in avoid"""
        seen, st = set(), [a]
        while st:
            x = st.pop()
            if x == b:
                return True
            if x in seen or x in avoid:
                continue
            seen.add(x)
            st.extend(self.succ[x])
        return False

    def loops(self):
        """natural loops: {header: set(blocks)} from back edges"""
        out = {}
        for b in self.reach:
            for s in self.succ[b]:
                if self.dominates(s, b):
                    body = out.setdefault(s, {s})
                    st = [b]
                    while st:
                        x = st.pop()
                        if x not in body:
                            body.add(x); st.extend(self.pred[x])
        return out

    # ------------------------------------------------------------------ definitions
    def _build_defs(self):
        self.defs = {}          # local -> list of (b, i, whole)
        self.writes_through = {}  # local -> [(b, i)] assignments to (*local).proj
        self.mut_borrowed = {}  # local -> list of (b, i) where &mut of (a projection of) it is taken
        self.shared_borrowed = {}
        for b, blk in enumerate(self.blocks):
            if blk['cleanup']:
                continue
            for i, s in enumerate(blk['st']):
                if s['s'] == 'assign':
                    p = s['place']
                    if p['pr'] and p['pr'][0]['p'] == 'deref':
                        # a write *through* the pointer held in the local: memory changes, the local does not
                        self.writes_through.setdefault(p['l'], []).append((b, i))
                    else:
                        self.defs.setdefault(p['l'], []).append((b, i, not p['pr']))
                    rv = s['rv']
                    if rv['r'] == 'ref':
                        bp = rv['place']
                        # a reborrow through a deref does not borrow the local itself
                        if not (bp['pr'] and bp['pr'][0]['p'] == 'deref'):
                            (self.mut_borrowed if rv['mut'] else self.shared_borrowed).setdefault(bp['l'], []).append((b, i))
                    elif rv['r'] == 'rawptr':
                        self.mut_borrowed.setdefault(rv['place']['l'], []).append((b, i))
                elif s['s'] == 'setdiscr':
                    self.defs.setdefault(s['place']['l'], []).append((b, i, False))
            t = blk['term']
            if t.get('t') == 'call':
                p = t['dest']
                self.defs.setdefault(p['l'], []).append((b, 'T', not p['pr']))

    def _block_defs(self, b):
        bd = self._blk_defs.get(b)
        if bd is None:
            bd = {}
            blk = self.blocks[b]
            if not blk['cleanup']:
                for j, s in enumerate(blk['st']):
                    if s['s'] == 'assign':
                        p = s['place']
                        if p['pr'] and p['pr'][0]['p'] == 'deref':
                            continue
                        bd.setdefault(p['l'], []).append((j, not p['pr']))
                    elif s['s'] == 'setdiscr':
                        bd.setdefault(s['place']['l'], []).append((j, False))
                t = blk['term']
                if t.get('t') == 'call':
                    bd.setdefault(t['dest']['l'], []).append((10 ** 9, not t['dest']['pr']))
            self._blk_defs[b] = bd
        return bd

    def _reach_in(self, b, l):
        """definitions of l reaching the entry of block b: on-demand backward search, memoised per (block, local).
        (A dense forward dataflow would need |blocks| x |locals| space, which explodes on the straight-line
        initialisers of large constant tables.)"""
        key = (b, l)
        r = self._rin_cache.get(key)
        if r is not None:
            return r
        if l not in self.defs:
            r = frozenset([('arg', l)]) if 1 <= l <= self.nargs else frozenset()
            self._rin_cache[key] = r
            return r
        acc = set()
        visited = set()
        stack = list(self.pred[b])
        if b == 0 and 1 <= l <= self.nargs:
            acc.add(('arg', l))
        while stack:
            p = stack.pop()
            if p in visited:
                continue
            visited.add(p)          # note: b itself is visited (once) when it lies on a loop: its own defs reach its entry
            lst = self._block_defs(p).get(l)
            whole = False
            if lst:
                for j, w in reversed(lst):
                    acc.add((p, 'T' if j == 10 ** 9 else j))
                    if w:
                        whole = True
                        break
            if whole:
                continue
            if p == 0 and 1 <= l <= self.nargs:
                acc.add(('arg', l))
            stack.extend(self.pred[p])
        r = frozenset(acc)
        self._rin_cache[key] = r
        return r

    def reaching(self, l, at):
        """definition sites of local l reaching program point at=(b, i) (before statement i / 'T' = before terminator)"""
        b, i = at
        n = len(self.blocks[b]['st']) if i == 'T' else i
        lst = self._block_defs(b).get(l)
        if not lst:
            return self._reach_in(b, l)
        import bisect
        k = bisect.bisect_left(lst, (n, False))
        acc = []
        while k > 0:
            k -= 1
            j, whole = lst[k]
            acc.append((b, 'T' if j == 10 ** 9 else j))
            if whole:
                return frozenset(acc)
        return self._reach_in(b, l) | frozenset(acc)

    # ------------------------------------------------------------------ terms
    def const_term(self, c):
        cr = self.crate
        ty = cr.T(c['ty'])
        k = c.get('c')
        if k == 'scalar':
            if ty['k'] == 'int':
                return ('int', ty['name'], int(c['v']))
            if ty['k'] == 'bool':
                return ('bool', int(c['v']) != 0)
            if ty['k'] == 'adt':
                # a field-less enum constant rendered as its discriminant bits
                return ('enumbits', ty['path'], int(c['v']))
            return ('scalar', ty['s'], int(c['v']))
        if k == 'slice' and 'bytes' in c:
            return ('str', bytes(c['bytes']))
        if k == 'unevaluated':
            if 'promoted' in c:
                return ('promoted', c['def'], c['promoted'])
            return ('named', c['def'])
        if k == 'zst':
            if ty['k'] == 'fndef':
                return ('fn', callee_key(cr, ty['callee']), ty['callee'])
            if ty['k'] == 'tuple' and not ty['elems']:
                return ('unit',)
            if ty['k'] == 'closure':
                return ('agg', 'closure|' + ty['path'], ())
            return ('zst', ty['s'])
        if k == 'tyconst':
            if ty['k'] == 'int' and c.get('v') is not None:
                return ('int', ty['name'], int(c['v']))
        return (UNKNOWN, 'const:' + str(k))

    def operand(self, op, at):
        if op['o'] == 'const':
            return self.const_term(op['const'])
        if op['o'] in ('copy', 'move'):
            return self.place(op['place'], at)
        return (UNKNOWN, 'operand')

    def place(self, p, at):
        t = self.local(p['l'], at)
        prs = p['pr']
        if prs and prs[0]['p'] == 'deref' and p['l'] in self.writes_through:
            t = ('mload', t, at)
            prs = prs[1:]
        for pr in prs:
            t = self.project(t, pr, at)
        return t

    def project(self, t, pr, at):
        k = pr['p']
        if k == 'deref':
            return self.deref(t, at)
        if k == 'field':
            return field(t, pr['i'])
        if k == 'downcast':
            return ('downcast', t, pr.get('name', pr['v']))
        if k == 'index':
            return ('index', t, self.local(pr['l'], at))
        if k == 'constindex':
            return ('index', t, ('int', 'usize', pr['offset'])) if not pr['from_end'] else (UNKNOWN, 'constindex-from-end')
        return (UNKNOWN, 'projection')

    def deref(self, t, at):
        if t[0] == 'ref':
            # ('ref', inner, base_local, rd_at_creation): the pointee must not have been reassigned since
            _, inner, base, rd = t
            if base is None or self.reaching(base, at) == rd:
                return inner
            return (UNKNOWN, 'stale-ref')
        return ('deref', t)

    def local(self, l, at):
        if 1 <= l <= self.nargs:
            rd = self.reaching(l, at)
            if rd == frozenset([('arg', l)]):
                return ('arg', l - 1)
        else:
            rd = self.reaching(l, at)
        if not rd:
            return (UNKNOWN, 'undef:_%d' % l)
        if len(rd) == 1:
            (site,) = rd
            return self.def_term(l, site)
        alts = []
        for site in sorted(rd, key=str):
            alts.append((site, self.def_term(l, site)))
        ts = {a[1] for a in alts}
        if len(ts) == 1:
            return alts[0][1]
        return ('phi', l, tuple(alts))

    def def_term(self, l, site):
        if site[0] == 'arg':
            return ('arg', l - 1)
        key = (l, site)
        if key in self._term_cache:
            return self._term_cache[key]
        if key in self._inprogress:
            return ('rec', l, site)
        self._inprogress.add(key)
        try:
            t = self._def_term(l, site)
        finally:
            self._inprogress.discard(key)
        if not contains_rec(t):
            self._term_cache[key] = t
        return t

    def _def_term(self, l, site):
        b, i = site
        blk = self.blocks[b]
        if i == 'T':
            t = blk['term']
            if t['dest']['pr']:
                return (UNKNOWN, 'call-into-projection')
            return self.call_term(t, b)
        s = blk['st'][i]
        if s['s'] != 'assign':
            return (UNKNOWN, 'setdiscr')
        if s['place']['pr']:
            # partial write: value of the whole local is the previous value with one component replaced
            prev = self.local(l, (b, i))
            return ('update', prev, tuple(pr_key(x) for x in s['place']['pr']), self.rvalue(s['rv'], (b, i)))
        return self.rvalue(s['rv'], (b, i))

    def call_term(self, t, b):
        at = (b, 'T')
        args = tuple(self.operand(a, at) for a in t['args'])
        if 'callee' in t:
            key = callee_key(self.crate, t['callee'])
            cid = t['callee']
        else:
            f = self.operand(t['func'], at)
            if f[0] == 'fn':
                key, cid = f[1], f[2]
            else:
                return ('callptr', f, args, (self.path, b))
        if key in PURE:
            return ('call', key, args, cid, None)
        return ('call', key, args, cid, (self.path, b))

    def rvalue(self, rv, at):
        cr = self.crate
        k = rv['r']
        if k == 'use':
            return self.operand(rv['op'], at)
        if k == 'ref':
            p = rv['place']
            inner = self.place(p, at)
            if p['pr'] and p['pr'][0]['p'] == 'deref':
                if len(p['pr']) == 1:
                    # a plain reborrow `&mut *x` denotes the same place as the borrow held in x: keep its identity (which local it
                    # borrows), otherwise two uses of one iterator - `find(&mut *r, ..)` and a later `it.next()` - look unrelated
                    base = self.place({'l': p['l'], 'pr': []}, at)
                    if base[0] == 'ref':
                        return base
                # reborrow &(*x).f : pointee is reached through another reference; no local to go stale
                return ('ref', inner, None, None)
            return ('ref', inner, p['l'], self.reaching(p['l'], at))
        if k == 'cast':
            a = self.operand(rv['op'], at)
            to = cr.T(rv['ty'])
            kind = rv['kind']
            if kind == 'IntToInt':
                frm = term_int_type(self, a, rv['op'])
                if to['k'] == 'int':
                    if frm == to['name']:
                        return a
                    return ('cast', frm, to['name'], a)
                return ('cast', frm, to['s'], a)
            if kind == 'Transmute':
                return ('transmute', to.get('path', to['s']), a)
            if kind.startswith('PointerCoercion(Unsize'):
                return ('unsize', a)
            if kind.startswith('PointerCoercion(ReifyFnPointer') or kind.startswith('PointerCoercion(ClosureFnPointer'):
                return ('fnptr', a)
            return ('castk', kind, to['s'], a)
        if k == 'binop':
            a = self.operand(rv['a'], at); b2 = self.operand(rv['b'], at)
            op = rv['op']
            if op.endswith('WithOverflow'):
                return ('binov', op[:-len('WithOverflow')], a, b2)
            return ('bin', op, a, b2)
        if k == 'unop':
            return ('un', rv['op'], self.operand(rv['a'], at))
        if k == 'discriminant':
            return ('discr', self.place(rv['place'], at))
        if k == 'aggregate':
            ops = tuple(self.operand(o, at) for o in rv['ops'])
            agg = rv['agg']
            if agg == 'adt':
                return ('agg', 'adt|%s|%s' % (rv['path'], rv['variant_name']), ops)
            if agg == 'closure':
                return ('agg', 'closure|' + rv['path'], ops)
            return ('agg', agg, ops)
        if k == 'repeat':
            return ('repeat', self.operand(rv['op'], at), rv.get('n'))
        return (UNKNOWN, 'rvalue:' + k)

    # ------------------------------------------------------------------ guards (4.2)
    def edge_guard(self, a, b):
        key = (a, b)
        c = self._guard_cache.get(key, 0)
        if c == 0:
            c = self._edge_guard(a, b)
            self._guard_cache[key] = c
        return c

    def _edge_guard(self, a, b):
        """the condition under which control goes from block a to its successor b:
        ('sw', discr_term, value|('not', [values])) | ('assert', cond_term, expected) | None (unconditional)"""
        t = self.blocks[a]['term']
        k = t.get('t')
        if k == 'switch':
            d = self.operand(t['discr'], (a, 'T'))
            conv = self._switch_conv(t['discr'])
            allv = tuple(conv(int(v)) for v, _ in t['arms'])
            vals = tuple(conv(int(v)) for v, tgt in t['arms'] if tgt == b)
            if t['otherwise'] == b:
                if len(self.succ[a]) == 1:
                    return None
                return ('sw', d, ('not', tuple(v for v in allv if v not in vals)))
            return ('sw', d, ('in', vals))
        if k == 'assert':
            return ('assert', self.operand(t['cond'], (a, 'T')), t['expected'])
        return None

    def _switch_conv(self, op):
        """SwitchInt values are raw bits; reinterpret them in the (possibly signed) type of the operand"""
        cr = self.crate
        if op['o'] == 'const':
            ty = cr.T(op['const']['ty'])
        else:
            p = op['place']
            ty = cr.T(self.locals[p['l']]['ty']) if not p['pr'] else {'k': '?'}
        if ty.get('k') == 'int' and ty.get('signed'):
            bits = ty['bits']
            def conv(v):
                return v - (1 << bits) if v >= (1 << (bits - 1)) else v
            return conv
        return lambda v: v

    def dominating_guards(self, blk):
        """guards of every edge (p -> c) such that c dominates blk and p is c's only predecessor"""
        out = []
        c = blk
        while c != 0:
            ps = self.pred[c]
            if len(ps) == 1:
                g = self.edge_guard(ps[0], c)
                if g is not None:
                    out.append(g)
            c = self.idom[c]
        return out

    def returns(self):
        return [b for b in self.reach if self.blocks[b]['term'].get('t') == 'return']

    def ret_alternatives(self):
        """[(defining block, term of _0)] over all definitions of _0 reaching a return"""
        out = []
        for rb in self.returns():
            rd = self.reaching(0, (rb, 'T'))
            for site in sorted(rd, key=str):
                if site[0] == 'arg':
                    continue
                out.append((site, self.def_term(0, site)))
        # dedupe
        seen, res = set(), []
        for s, t in out:
            if s not in seen:
                seen.add(s); res.append((s, t))
        return res

    def calls(self):
        """[(block, key, callee json, terminator)] for every call in reachable non-cleanup blocks"""
        out = []
        for b in sorted(self.reach):
            t = self.blocks[b]['term']
            if t.get('t') == 'call':
                if 'callee' in t:
                    out.append((b, callee_key(self.crate, t['callee']), self.crate.C(t['callee']), t))
                else:
                    out.append((b, None, None, t))
        return out


def pr_key(pr):
    if pr['p'] == 'field':
        return ('field', pr['i'])
    if pr['p'] == 'deref':
        return ('deref',)
    if pr['p'] == 'downcast':
        return ('downcast', pr.get('name', pr['v']))
    return (pr['p'],)


def contains_rec(t):
    if not isinstance(t, tuple):
        return False
    if t and t[0] == 'rec':
        return True
    return any(contains_rec(x) for x in t if isinstance(x, tuple))


def field(t, i):
    if t[0] == 'agg' and i < len(t[2]) and not t[1].startswith('closure|'):
        return t[2][i]
    if t[0] == 'binov':
        return ('bin', t[1] + '_checked', t[2], t[3]) if i == 0 else ('ovf', t[1], t[2], t[3])
    return ('field', t, i)


def term_int_type(body, a, op):
    """integer type name of an operand (for cast provenance)"""
    cr = body.crate
    if op['o'] == 'const':
        return cr.T(op['const']['ty']).get('name', cr.T(op['const']['ty'])['s'])
    p = op['place']
    if not p['pr']:
        t = cr.T(body.locals[p['l']]['ty'])
        return t.get('name', t['s'])
    return '?'


def show(t, depth=0):
    """compact rendering of a term for reports"""
    if not isinstance(t, tuple) or not t:
        return repr(t)
    if depth > 12:
        return '...'
    k = t[0]
    d = depth + 1
    if k == 'arg': return 'arg%d' % t[1]
    if k == 'int': return '%d%s' % (t[2], t[1])
    if k == 'bool': return str(t[1]).lower()
    if k == 'str': return repr(t[1].decode('utf8', 'replace'))
    if k == 'named': return 'const ' + t[1].split('::', 1)[-1]
    if k == 'promoted': return 'promoted(%s,%d)' % (t[1].split('::')[-1], t[2])
    if k == 'discr': return 'discr(%s)' % show(t[1], d)
    if k == 'cast': return '(%s as %s)' % (show(t[3], d), t[2])
    if k == 'transmute': return 'transmute::<%s>(%s)' % (t[1].split('::')[-1], show(t[2], d))
    if k == 'bin': return '%s(%s, %s)' % (t[1], show(t[2], d), show(t[3], d))
    if k == 'binov': return '%sWithOverflow(%s, %s)' % (t[1], show(t[2], d), show(t[3], d))
    if k == 'ovf': return 'overflow(%s %s %s)' % (show(t[2], d), t[1], show(t[3], d))
    if k == 'un': return '%s(%s)' % (t[1], show(t[2], d))
    if k == 'field': return '%s.%d' % (show(t[1], d), t[2])
    if k == 'deref': return '*%s' % show(t[1], d)
    if k == 'ref': return '&%s' % show(t[1], d)
    if k == 'unsize': return show(t[1], d)
    if k == 'downcast': return '(%s as %s)' % (show(t[1], d), t[2])
    if k == 'index': return '%s[%s]' % (show(t[1], d), show(t[2], d))
    if k == 'call':
        nm = t[1].split('::')[-2:] if t[1] else ['?']
        return '%s(%s)%s' % ('::'.join(nm), ', '.join(show(a, d) for a in t[2]), '' if t[4] is None else '@bb%s' % (t[4][1],))
    if k == 'agg':
        nm = t[1].split('|')[-1] if t[1].startswith('adt|') else t[1].split('::')[-1]
        return '%s{%s}' % (nm, ', '.join(show(a, d) for a in t[2]))
    if k == 'phi': return 'phi_%d(%s)' % (t[1], ' | '.join('%s' % show(a[1], d) for a in t[2]))
    if k == 'mload': return 'load@%s(*%s)' % (t[2], show(t[1], d))
    if k == 'update': return 'update(%s, %s := %s)' % (show(t[1], d), t[2], show(t[3], d))
    if k == 'fn': return 'fn %s' % t[1]
    if k == 'unit': return '()'
    if k == 'enumbits': return 'enum(%s)#%d' % (t[1].split('::')[-1], t[2])
    if k == UNKNOWN: return '?<%s>' % t[1]
    return '%s(%s)' % (k, ', '.join(show(a, d) if isinstance(a, tuple) else repr(a) for a in t[1:]))
