"""Generator-side facts (E2 tmplx output) and the rules that read them."""
import json, os, subprocess
from lib import extract as X

def stage_gen():
    st = X.Stage('tmplx-v2')
    def build(out):
        if not os.path.exists(X.TMPLX):
            raise SystemExit('checker error: tmplx not built; run ./setup.sh')
        for name, src in (('gen', os.path.join(X.REPO, 'src')), ('fixture_c16', os.path.join(X.VERIF, 'fixtures', 'c16_bad', 'src'))):
            p = subprocess.run([X.TMPLX, src], stdout=subprocess.PIPE, stderr=subprocess.PIPE, text=True)
            if p.returncode != 0:
                raise SystemExit('checker error: tmplx failed on %s: %s' % (src, p.stderr[-500:]))
            with open(os.path.join(out, name + '.json'), 'w') as f:
                f.write(p.stdout)
    d = st.ensure(build)
    return st, d

def load(d, name='gen'):
    with open(os.path.join(d, name + '.json')) as f:
        return json.load(f)

def all_quotes(g):
    out = []
    for f in g['files']:
        for fn in f.get('fns', []):
            for q in fn['quotes']:
                out.append(q)
    return out

PRIMS = {'u8', 'i8', 'u16', 'i16', 'u32', 'i32', 'u64', 'i64', 'u128', 'i128', 'usize', 'isize', 'str', 'bool', 'char', 'f32', 'f64'}

def lint_template(q, sibling_imports=()):
    """absolute-path lint (DESIGN.md 5 C16) -> list of (rule, message)"""
    out = []
    p = q['parsed']
    if p is None:
        return [('unparsed', 'template could not be parsed as Rust after de-interpolation')]
    imported = set(sibling_imports)      # fragments spliced into a sibling template of the same function see its imports
    for u in p['uses']:
        if not u['leading'] or not u['prefix'] or u['prefix'][0] != 'core':
            out.append(('L1-use', '`use %s%s::%s` does not go through an absolute ::core path' % ('::' if u['leading'] else '', '::'.join(u['prefix']), u['name'])))
        else:
            imported.add(u['name'])
    bound = set(p['bound'])
    for x in p['paths']:
        segs = x['segs']
        if x['leading']:
            if segs[0] != 'core':
                out.append(('L1-path', 'path ::%s starts with `%s`, required ::core (not available in no_std crates / not guaranteed by the user crate)' % ('::'.join(segs), segs[0])))
            continue
        h = segs[0]
        if h in ('Self', 'self', 'crate', 'super') and h in ('crate', 'super'):
            out.append(('L2-bare', 'path %s is relative to the user crate' % '::'.join(segs)))
            continue
        if h in ('Self', 'self') or h.startswith('__I_') or h in ('__x', '__w', '__W') or h in PRIMS or h in bound or h in imported:
            continue
        out.append(('L2-bare', 'bare name `%s` (in %s) is resolved in the user\'s scope: it is neither an absolute ::core path, nor imported by a `use ::core::..` inside the template, nor bound by the template' % ('::'.join(segs), x['kind'])))
    for m in p['macros']:
        if not m['leading'] or m['segs'][0] != 'core':
            out.append(('L3-macro', 'macro `%s!` is invoked by a bare / non-core path: a user macro of that name in textual scope replaces it' % '::'.join(m['segs'])))
    return out


def sibling_imports(qs, src_root=None):
    """(file, fn) -> names imported through ::core, or bound, by any template of that function - and, for a helper function
    whose templates are fragments handed back to its callers, by the templates of every function of a file that mentions the
    helper's name (the fragment lands in one of those)"""
    out = _sibling_imports(qs)
    if src_root is None:
        return out
    import os, re
    texts = {}
    for dp, _, fns in os.walk(src_root):
        for fn in fns:
            if fn.endswith('.rs'):
                rel = os.path.relpath(os.path.join(dp, fn), src_root)
                try:
                    texts[rel] = open(os.path.join(dp, fn), encoding='utf8').read()
                except OSError:
                    pass
    by_file = {}
    for (f, fn), names in out.items():
        by_file.setdefault(f, set()).update(names)
    helpers = {(q['file'], q['fn']) for q in qs if q['parsed'] is not None and q['parsed']['wrapper'] != 'file'}
    for (f, fn) in helpers:
        if fn in ('generate', 'parse', 'check', 'new'):
            continue
        pat = re.compile(r'\b%s\s*\(' % re.escape(fn))
        for rel, txt in texts.items():
            if pat.search(txt):
                out.setdefault((f, fn), set()).update(by_file.get(rel, ()))
    return out

def _sibling_imports(qs):
    out = {}
    for q in qs:
        p = q['parsed']
        if p is None:
            continue
        for u in p['uses']:
            if u['leading'] and u['prefix'] and u['prefix'][0] == 'core':
                out.setdefault((q['file'], q['fn']), set()).add(u['name'])
        # ... and its local bindings: `quote! { t.1 }` spliced into a template that binds `t` refers to that binding
        for b in p['bound']:
            if b[:1].islower() or b[:1] == '_':
                out.setdefault((q['file'], q['fn']), set()).add(b)
    return out
