"""range(a, b) (C07): index terms of both arguments, constructor of the result, panic edges.

Index terms.  gapless: idx(v) is an integer expression of discr(v); holes: idx(v) is read from a MaybeUninit that a
loop over the whole run table writes when the drawn run contains discr(v) (rule U-written: the loop has no early
exit, the runs are disjoint and cover every declared discriminant, so exactly one write happens before the read).
Either way idx is evaluated as a piecewise-affine function of the discriminant (per table entry for holes) and
compared with the position function on the whole declared set.

Constructor.  With s = idx(a), e = idx(b) equal to the positions of a and b:
  range mode   : (discr(a)..=discr(b)).map(transmute)         - core: empty when a > b; every value between two
                                                                 declared values of a gapless enum is declared
  next_and_back: fwd = Some(a), bwd = Some(b), len = if s > e {0} else {e - s + 1}
  table        : if s > e {T3[..0]} else {T3[s..=e]} .iter().copied()
and the C06 rules on the returned struct.  Panic edges (`e - s`, `+ 1`, slice index) must be dominated by `!(s > e)`.
"""
from . import shapes as S, ivl
from .scan import Scanner, Unrecognised, SOME, mentions
from .mir import show
from .items import GEN_FILE, shape
from .r_asstr import spec_pos
from .r_iter import closure_is_transmute

CON = 'src/feature/range_fn.rs::generate'


def _bad(ctx, inst, rule, what, kind='refuted', cls=''):
    ctx.violation(rule, inst, 'range', what, key='%s/%s/range/%s%s' % (ctx.prop, rule, shape(inst), cls), construct='%s [%s]' % (CON, shape(inst)), kind=kind)


def find_index_terms(V, body, t):
    """sub-terms of t that are usize index values: either affine in discr(arg k) or assume_init(m)"""
    out = []
    def walk(x):
        if not isinstance(x, tuple) or not x:
            return
        if x[0] == 'call' and x[1] == S.MU_ASSUME:
            out.append(x); return
        if x[0] == 'cast' and x[2] == 'usize':
            out.append(x); return
        for y in x:
            if isinstance(y, tuple):
                walk(y)
    walk(t)
    return out


def mu_writes(V, body):
    """[(m_local, value term, block)] for every MaybeUninit::write call"""
    res = []
    for blk, key, c, t in body.calls():
        if key == S.MU_WRITE:
            a0 = body.operand(t['args'][0], (blk, 'T'))
            a0s = V.strip(a0)
            m = a0s[2] if a0s[0] == 'ref' else None
            res.append((m, body.operand(t['args'][1], (blk, 'T')), blk))
    return res


def mu_local_of(V, body, t):
    """assume_init(copy m) -> local m"""
    # the argument is a copy of the MaybeUninit local: find it syntactically
    for blk, key, c, term in body.calls():
        if key == S.MU_ASSUME:
            tt = body.call_term(term, blk)
            if tt == t:
                a = term['args'][0]
                if a['o'] in ('copy', 'move') and not a['place']['pr']:
                    l = a['place']['l']
                    # look through one copy
                    rd = body.reaching(l, (blk, 'T'))
                    if len(rd) == 1:
                        (site,) = rd
                        if site[0] != 'arg' and site[1] != 'T':
                            st = body.blocks[site[0]]['st'][site[1]]
                            rv = st['rv']
                            if rv['r'] == 'use' and rv['op']['o'] in ('copy', 'move') and not rv['op']['place']['pr']:
                                return rv['op']['place']['l'], blk
                    return l, blk
    return None, None


def index_function(inst, V, ctx, body, t, k):
    """PA of index term t as a function of discr(arg k) on the declared set, or None (violation reported)"""
    var = ('discr', ('arg', k))
    dom = ivl.norm(inst.runs)
    who = 'start' if k == 0 else 'end'
    try:
        sc = Scanner(V, body, var, dom)
        if t[0] == 'call' and t[1] == S.MU_ASSUME:
            m, ablk = mu_local_of(V, body, t)
            if m is None:
                _bad(ctx, inst, 'uninit', 'cannot identify the MaybeUninit read by %s' % show(t), 'unrecognised'); return None
            ws = [w for w in mu_writes(V, body) if w[0] == m]
            if len(ws) != 1:
                _bad(ctx, inst, 'uninit', 'the %s index is read with assume_init() but is written at %d places; the rule set expects one guarded write inside the table loop' % (who, len(ws)), 'undischarged' if not ws else 'unrecognised'); return None
            _, val, wblk = ws[0]
            loops = body.loops()
            hdr = next((h for h, bl in loops.items() if wblk in bl), None)
            if hdr is None:
                _bad(ctx, inst, 'uninit', 'the write to the %s index is not inside a loop over the run table' % who, 'unrecognised'); return None
            lb = loops[hdr]
            if ablk in lb or not body.dominates(hdr, ablk):
                _bad(ctx, inst, 'uninit', 'assume_init() is not after the table loop', 'unrecognised'); return None
            # no early exit: the only edge leaving the loop is the exhausted arm of the draw
            draw = None
            for b in sorted(lb):
                for s_ in body.succ[b]:
                    if s_ in lb:
                        continue
                    g = body.edge_guard(b, s_)
                    nc = V.next_call(g[1][1]) if g and g[0] == 'sw' and g[1][0] == 'discr' else None
                    if nc is None or S.option_arm(g) != 'None':
                        if g and g[0] == 'sw' and g[1][0] == 'discr' and S.option_arm(g) is None and nc is not None:
                            continue      # unreachable otherwise-arm
                        _bad(ctx, inst, 'uninit', 'the loop that initialises the %s index can be left early (edge bb%d -> bb%d under %s): the index may still be uninitialised when assume_init() reads it' % (
                            who, b, s_, show(g[1]) if g else 'no condition'), 'undischarged', '/early-exit'); return None
                    draw = nc
            if draw is None:
                _bad(ctx, inst, 'uninit', 'loop without an exhausted exit', 'unrecognised'); return None
            es = sc.entries(draw[2], draw[0])
            # guards of the write relative to the loop header: edges (p -> c) on the dominator chain of the write,
            # inside the loop, where p is the only predecessor of c
            gs = []
            c = wblk
            while c != hdr:
                ps = body.pred[c]
                if len(ps) == 1 and ps[0] in lb:
                    g = body.edge_guard(ps[0], c)
                    if g is not None:
                        gs.append(g)
                c = body.idom[c]
            pieces = []
            covered = []
            for (lo, hi, off) in es:
                st = {'binds': {draw[3]: SOME(sc.entry_term(draw[2], lo, hi, off))}, 'idx': {}, 'region': list(dom), 'first': {}}
                reg = list(dom)
                for g in gs:
                    if g[0] == 'sw' and g[1][0] == 'discr':
                        if S.option_arm(g) != 'Some':
                            reg = []
                        continue
                    tv = S.sw_true(g)
                    if g[0] != 'sw' or tv is None:
                        raise Unrecognised('write guarded by %s' % show(g[1]))
                    reg = ivl.intersect(reg, sc.cond_region(sc.rewrite(g[1], st), tv, st))
                if not reg:
                    continue
                f = sc.affine(sc.rewrite(val, st), region=reg)
                pieces += f.pieces
                covered = ivl.union(covered, reg)
            missing = ivl.diff(dom, covered, sc.tlo, sc.thi)
            if missing:
                _bad(ctx, inst, 'uninit', 'for a %s variant with discriminant %d no table entry triggers the write: assume_init() reads an uninitialised index' % (who, missing[0][0]), 'undischarged', '/uncovered'); return None
            from .pa import PA
            f = PA(pieces, 'usize')
            ctx.obligation(True)
        else:
            f = sc.affine(t)
        return f
    except Unrecognised as e:
        _bad(ctx, inst, 'index', 'the %s index %s is not an expression the rule set understands: %s' % (who, show(t), e), 'unrecognised'); return None


def index_arg(V, body, t):
    """0 / 1: the argument whose discriminant the index term t is computed from (None if unclear)"""
    A, B = ('arg', 0), ('arg', 1)
    if t[0] == 'call' and t[1] == S.MU_ASSUME:
        m, _ = mu_local_of(V, body, t)
        ws = [w for w in mu_writes(V, body) if w[0] == m]
        if len(ws) != 1:
            return None
        t = ws[0][1]
    a, b = mentions(t, A), mentions(t, B)
    if a and not b:
        return 0
    if b and not a:
        return 1
    return None


def check_index(inst, V, ctx, body, t, k):
    f = index_function(inst, V, ctx, body, t, k)
    if f is None:
        return False
    pos = spec_pos(inst)
    dom = ivl.norm(inst.runs)
    x = f.equal_on(pos, dom)
    if x is not None:
        _bad(ctx, inst, 'index', 'the %s index of the variant with discriminant %d is computed as %s, required its position %d in discriminant order' % ('start' if k == 0 else 'end', x, f.at(x), pos.at(x)),
             cls='/neg' if x < 0 else '')
        return False
    ctx.ok('index', inst)
    return True


def cmp_s_gt_e(g, s, e):
    """for a guard over (s, e): returns True if it asserts s > e, False if it asserts s <= e, 'ge' / 'lt' for the off-by-one forms, None otherwise"""
    if g[0] != 'sw' or g[1][0] != 'bin':
        return None
    tv = S.sw_true(g)
    op, a, b = g[1][1], g[1][2], g[1][3]
    if tv is None:
        return None
    if (a, b) == (s, e):
        pass
    elif (a, b) == (e, s):
        op = {'Gt': 'Lt', 'Lt': 'Gt', 'Ge': 'Le', 'Le': 'Ge'}.get(op, op)
    else:
        return None
    # now op relates s ? e
    table = {('Gt', True): True, ('Le', False): True, ('Le', True): False, ('Gt', False): False,
             ('Ge', True): 'ge', ('Lt', False): 'ge', ('Lt', True): 'lt', ('Ge', False): 'lt'}
    return table.get((op, tv))


def saturating_len(V, body, t):
    """t = (end_idx + 1).saturating_sub(start_idx)  ->  (s, e) terms, else None.  Equal to `if s > e {0} else {e - s + 1}` for all
    s, e (e + 1 <= s whenever s > e), and e + 1 cannot overflow: both are positions < N <= 65534"""
    t = V.strip(t)
    if t[0] != 'call' or t[1] != 'int::saturating_sub' or len(t[2]) != 2:
        return None
    x, s = V.strip(t[2][0]), t[2][1]
    e = None
    if x[0] == 'bin' and x[1] in ('Add', 'Add_checked'):
        if x[3] == ('int', 'usize', 1):
            e = x[2]
        elif x[2] == ('int', 'usize', 1):
            e = x[3]
    elif x[0] == 'call' and x[1] == 'int::wrapping_add' and x[2][1] == ('int', 'usize', 1):
        e = x[2][0]
    if e is None:
        return None
    if not (index_arg(V, body, s) == 0 and index_arg(V, body, e) == 1):
        return None
    return s, e


def check_range(inst, V, ctx, body, spath, kind, roles):
    """body of range(); spath: iterator struct; kind/roles from the C06 analysis of the struct"""
    alts = body.ret_alternatives()
    if len(alts) != 1:
        _bad(ctx, inst, 'constructor', 'range() has %d return definitions' % len(alts), 'unrecognised'); return False
    site, t = alts[0]
    t = V.strip(t)
    if t[0] != 'agg' or not t[1].startswith('adt|' + spath + '|'):
        _bad(ctx, inst, 'constructor', 'range() returns %s' % show(t), 'unrecognised'); return False
    A, B = ('arg', 0), ('arg', 1)
    if kind == 'forward':
        inner = t[2][0]
        # ---- range mode
        src = V.iter_source(inner)
        if src and src[0] == 'map' and src[1] and src[1][0] == 'range':
            if closure_is_transmute(V, src[2]) in (None, False):
                _bad(ctx, inst, 'constructor', 'maps through something other than transmute', 'unrecognised'); return False
            if not inst.gapless:
                _bad(ctx, inst, 'constructor', 'integer range over an enum with holes: undeclared values are transmuted', cls='/holes'); return False
            if (V.strip(src[1][1]), V.strip(src[1][2])) != (('discr', A), ('discr', B)):
                _bad(ctx, inst, 'constructor', 'ranges over %s ..= %s, required discr(start) ..= discr(end)' % (show(src[1][1]), show(src[1][2]))); return False
            ctx.ok('constructor', inst)
            return True
        # ---- table mode: alternatives of the inner iterator
        ialts = inner[2] if inner[0] == 'phi' else ((site, inner),)
        seen_empty = seen_slice = False
        flat = []
        for asite, at in ialts:
            srcx = V.iter_source(at)
            if srcx and srcx[0] == 'copied' and srcx[1][0] == 'subslice2' and srcx[1][1][0] == 'T3' and len(ialts) == 1:
                # TABLE[start_idx..][..len] with len = (end_idx + 1).saturating_sub(start_idx): positions start..=end, empty when start > end;
                # start_idx < N and len <= N - start_idx, so neither index operation can panic
                r1, r2 = V.strip(srcx[1][2]), V.strip(srcx[1][3])
                if r1[0] == 'agg' and r1[1].endswith('RangeFrom|RangeFrom') and r2[0] == 'agg' and r2[1].endswith('RangeTo|RangeTo'):
                    se = saturating_len(V, body, r2[2][0])
                    if se is not None and index_arg(V, body, r1[2][0]) == 0:
                        if not (check_index(inst, V, ctx, body, se[0], 0) and check_index(inst, V, ctx, body, se[1], 1) and check_index(inst, V, ctx, body, r1[2][0], 0)):
                            return False
                        ctx.ok('constructor', inst)
                        return True
            if not srcx or srcx[0] != 'copied' or srcx[1][0] != 'subslice' or srcx[1][1][0] != 'T3':
                _bad(ctx, inst, 'constructor', 'range() iterates %s, required a sub-slice of the variant table' % show(at), 'unrecognised'); return False
            rng0 = V.strip(srcx[1][2])
            # `TABLE[if start_idx > end_idx { 0..0 } else { start_idx..end_idx + 1 }]`: one index expression with two definitions
            flat += [(rs, V.strip(rt)) for rs, rt in rng0[2]] if rng0[0] == 'phi' else [(asite, rng0)]
        for asite, rng in flat:
            gs = [g for g in body.dominating_guards(asite[0])]
            zero = ('int', 'usize', 0)
            if rng[0] == 'agg' and ((rng[1].endswith('RangeTo|RangeTo') and rng[2] == (zero,)) or (rng[1].endswith('Range|Range') and rng[2] == (zero, zero))):
                # the empty prefix: never panics
                seen_empty = True
                empt = (asite, gs)
                continue
            half_open = None
            if rng[0] == 'agg' and rng[1].endswith('Range|Range') and len(rng[2]) == 2:
                x = V.strip(rng[2][1])
                if x[0] == 'bin' and x[1] in ('Add', 'Add_checked') and x[3] == ('int', 'usize', 1):
                    half_open = (rng[2][0], x[2])        # start_idx .. end_idx + 1  ==  start_idx ..= end_idx  (end_idx + 1 <= N)
            if (rng[0] == 'call' and rng[1] == S.R_NEW) or half_open:
                s, e = half_open if half_open else rng[2]
                if not (index_arg(V, body, s) == 0 and index_arg(V, body, e) == 1):
                    _bad(ctx, inst, 'constructor', 'TABLE[%s ..= %s] does not run from the start index to the end index' % (show(s), show(e)), cls='/bounds'); return False
                if not (check_index(inst, V, ctx, body, s, 0) and check_index(inst, V, ctx, body, e, 1)):
                    return False
                rel = [cmp_s_gt_e(g, s, e) for g in gs]
                if False not in rel:
                    bad_rel = [r for r in rel if r is not None]
                    _bad(ctx, inst, 'panic-edge', 'TABLE[start_idx..=end_idx] is evaluated without a dominating `start_idx <= end_idx` test%s: for start more than one position after end the slice index panics ("slice index starts at .. but ends at ..")' % (
                        (' (the test found is %s)' % bad_rel) if bad_rel else ''), 'undischarged', '/slice'); return False
                seen_slice = (s, e)
                continue
            _bad(ctx, inst, 'constructor', 'sub-slice bounds %s' % show(rng), 'unrecognised'); return False
        if not seen_slice:
            _bad(ctx, inst, 'constructor', 'no TABLE[start..=end] alternative', 'unrecognised'); return False
        if seen_empty:
            s, e = seen_slice
            rel = [cmp_s_gt_e(g, s, e) for g in empt[1]]
            if True not in rel:
                _bad(ctx, inst, 'emptiness', 'the empty result is chosen under %s, required exactly when start_idx > end_idx' % [r for r in rel if r is not None]); return False
        ctx.ok('constructor', inst)
        return True
    # ---- cursor struct
    ops = t[2]
    f, bk, L = roles['fwd'], roles['bwd'], roles['len']
    some = lambda x: ('agg', 'adt|core::option::Option|Some', (x,))
    if V.strip(ops[f]) != some(A) or V.strip(ops[bk]) != some(B):
        _bad(ctx, inst, 'constructor', 'range(start, end) sets front=%s back=%s, required Some(start) / Some(end)' % (show(ops[f]), show(ops[bk])), cls='/cursors'); return False
    lt = ops[L]
    se = saturating_len(V, body, lt)
    if se is not None:
        if not (check_index(inst, V, ctx, body, se[0], 0) and check_index(inst, V, ctx, body, se[1], 1)):
            return False
        ctx.obligation(True, 2)
        ctx.ok('constructor', inst)
        return True
    if lt[0] != 'phi' or len(lt[2]) != 2:
        _bad(ctx, inst, 'constructor', 'len is %s, required `if start_idx > end_idx {0} else {end_idx - start_idx + 1}`' % show(lt), 'unrecognised' if lt[0] != 'int' else 'refuted'); return False
    zero = [a for a in lt[2] if a[1] == ('int', 'usize', 0)]
    other = [a for a in lt[2] if a[1] != ('int', 'usize', 0)]
    if len(zero) != 1 or len(other) != 1:
        _bad(ctx, inst, 'constructor', 'len alternatives %s' % show(lt), 'unrecognised'); return False
    ot = other[0][1]
    # e - s + 1 in any of plain / checked form
    def strip_add1(x):
        if x[0] == 'bin' and x[1] in ('Add', 'Add_checked') and x[3] == ('int', 'usize', 1):
            return x[2], x[1]
        if x[0] == 'bin' and x[1] in ('Add', 'Add_checked') and x[2] == ('int', 'usize', 1):
            return x[3], x[1]
        if x[0] == 'call' and x[1] == 'int::wrapping_add' and x[2][1] == ('int', 'usize', 1):
            return x[2][0], 'wrapping'
        return None, None
    d, addk = strip_add1(ot)
    e = s = None
    if d is not None:
        if d[0] == 'bin' and d[1] in ('Sub', 'Sub_checked'):
            e, s = d[2], d[3]
        elif d[0] == 'call' and d[1] == 'int::wrapping_sub':
            e, s = d[2]
    if e is None:
        # (end_idx + 1) - start_idx: the same number under the dominating `start_idx <= end_idx` (no underflow), and end_idx + 1 <= N
        x = ot
        if x[0] == 'bin' and x[1] in ('Sub', 'Sub_checked'):
            y, _k = strip_add1(V.strip(x[2]))
            if y is not None:
                e, s = y, x[3]
        elif x[0] == 'call' and x[1] == 'int::wrapping_sub':
            y, _k = strip_add1(V.strip(x[2][0]))
            if y is not None:
                e, s = y, x[2][1]
    if e is None:
        # a form the rule cannot read is not evidence of a wrong length
        _bad(ctx, inst, 'constructor', 'non-empty len is %s, required end_idx - start_idx + 1' % show(ot), 'unrecognised', cls='/len'); return False
    if not (index_arg(V, body, s) == 0 and index_arg(V, body, e) == 1):
        _bad(ctx, inst, 'constructor', 'len = %s does not subtract the start index from the end index' % show(ot), cls='/len'); return False
    if not (check_index(inst, V, ctx, body, s, 0) and check_index(inst, V, ctx, body, e, 1)):
        return False
    gz = [cmp_s_gt_e(g, s, e) for g in body.dominating_guards(zero[0][0][0])]
    go = [cmp_s_gt_e(g, s, e) for g in body.dominating_guards(other[0][0][0])]
    if True not in gz or False not in go:
        rels = [r for r in gz + go if r is not None]
        if 'ge' in rels or 'lt' in rels:
            _bad(ctx, inst, 'emptiness', 'len is 0 when start_idx >= end_idx: range(v, v) must yield exactly v, but is empty', cls='/ge'); return False
        _bad(ctx, inst, 'emptiness', 'len = 0 is not chosen exactly when start_idx > end_idx (tests found: %s)' % rels, 'unrecognised'); return False
    # panic edges: e - s under !(s > e) cannot underflow; + 1 cannot overflow since both are positions < N <= 65534
    ctx.obligation(True, 2)
    ctx.ok('constructor', inst)
    return True
