"""Interval sets over the integers: sorted lists of disjoint, non-adjacent inclusive (lo, hi) pairs."""

def norm(iv):
    iv = sorted((a, b) for a, b in iv if a <= b)
    out = []
    for a, b in iv:
        if out and a <= out[-1][1] + 1:
            if b > out[-1][1]:
                out[-1] = (out[-1][0], b)
        else:
            out.append((a, b))
    return out

def union(x, y):
    return norm(list(x) + list(y))

def intersect(x, y):
    out = []
    i = j = 0
    while i < len(x) and j < len(y):
        a = max(x[i][0], y[j][0]); b = min(x[i][1], y[j][1])
        if a <= b:
            out.append((a, b))
        if x[i][1] < y[j][1]:
            i += 1
        else:
            j += 1
    return out

def complement(x, lo, hi):
    out = []
    cur = lo
    for a, b in x:
        if a > cur:
            out.append((cur, min(a - 1, hi)))
        cur = max(cur, b + 1)
    if cur <= hi:
        out.append((cur, hi))
    return [(a, b) for a, b in out if a <= b]

def diff(x, y, lo=None, hi=None):
    if not x:
        return []
    lo = min(x[0][0], y[0][0] if y else x[0][0]) if lo is None else lo
    hi = max(x[-1][1], y[-1][1] if y else x[-1][1]) if hi is None else hi
    return intersect(x, complement(y, lo, hi))

def size(x):
    return sum(b - a + 1 for a, b in x)

def contains(x, v):
    return any(a <= v <= b for a, b in x)

def show(x, limit=6):
    s = ', '.join(('%d' % a) if a == b else ('%d..=%d' % (a, b)) for a, b in x[:limit])
    if len(x) > limit:
        s += ', ... (%d intervals)' % len(x)
    return '{' + s + '}'

def first_diff(x, y):
    """an integer in exactly one of the two sets, or None"""
    d = diff(x, y)
    if d:
        return d[0][0], 'only-left'
    d = diff(y, x)
    if d:
        return d[0][0], 'only-right'
    return None


def clip(x, lo, hi):
    """x intersected with the single interval [lo, hi]; O(log n + hits)"""
    import bisect
    if not x:
        return []
    # first interval whose end >= lo
    k = bisect.bisect_left(x, (lo, lo))
    if k > 0 and x[k - 1][1] >= lo:
        k -= 1
    out = []
    n = len(x)
    while k < n and x[k][0] <= hi:
        a, b = max(x[k][0], lo), min(x[k][1], hi)
        if a <= b:
            out.append((a, b))
        k += 1
    return out
