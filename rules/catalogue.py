"""The documented feature / mode / parameter catalogue (the specification side of C10, C13, C15), read from the
`///` documentation of the derive macro in /repo/src/lib.rs, and the accepted catalogue, read from the parsers."""
import re

def documented(gen):
    docs = None
    for f in gen['files']:
        if f['file'] == 'lib.rs':
            docs = f['docs']
    if not docs:
        return None
    cat = {}
    section = None
    feat = None
    last_param = None
    in_params = False
    fence = False
    for line in docs:
        if line.strip().startswith('```'):
            fence = not fence
            continue
        if fence:
            continue
        m = re.match(r'^ # (.+?)\s*$', line)
        if m:
            section = m.group(1); feat = None; continue
        m = re.match(r'^ ## (\S+)\s*$', line)
        if m and section and 'eature' in section:
            feat = m.group(1)
            cat[feat] = {'section': section, 'modes': [], 'params': set()}
            if section.startswith('Function/Constant'):
                cat[feat]['params'] |= {'name', 'vis'}     # "All features which create a function (or constant) have the two optional parameters"
            in_params = False
            continue
        if feat is None:
            continue
        if re.match(r'^ `\$vis (const |fn )', line):
            # "All features which create a function (or constant) have the two optional parameters name and vis"
            cat[feat]['params'] |= {'name', 'vis'}
            continue
        if re.match(r'^ Parameter:\s*$', line):
            in_params = True; continue
        if in_params:
            m = re.match(r'^ - ((?:`\w+`(?:, )?)+)', line)
            if m:
                names = re.findall(r'`(\w+)`', m.group(1))
                cat[feat]['params'] |= set(names)
                last_param = names[-1]
                continue
            m = re.match(r'^\s{3,}- `"(\w+)"`', line)
            if m and last_param == 'mode':
                cat[feat]['modes'].append(m.group(1)); continue
            if line.strip() == '' or line.startswith('   ') or line.startswith('     '):
                continue
            in_params = False
    return cat

def accepted(gen):
    cat = {}
    for f in gen['files']:
        if not f['file'].startswith('feature/'):
            continue
        for fn in f.get('fns', []):
            if fn['name'] != 'parse':
                continue
            names = [c['lits'][0] for c in fn['str_calls'] if c['method'] == 'get' and c['lits'] and 'feature_parser' in c['recv']]
            if not names:
                continue
            feat = names[0]
            e = cat.setdefault(feat, {'file': f['file'], 'modes': [], 'params': set()})
            for c in fn['str_calls']:
                if c['method'] == 'get_vis_name':
                    e['params'] |= {'name', 'vis'}
                elif c['method'] in ('get_str_opt', 'get_bool') and c['lits']:
                    e['params'].add(c['lits'][0])
            for m in fn['match_str_arms']:
                if 'get_str_opt ("mode")' in m['scrutinee']:
                    for a in m['arms']:
                        e['modes'] += a['pats']
    return cat

def vis_whitelist(gen):
    for f in gen['files']:
        if f['file'] == 'parser/params.rs':
            for fn in f['fns']:
                if fn['name'] == 'get_vis_name':
                    for m in fn['match_str_arms']:
                        return [p for a in m['arms'] for p in a['pats']]
    return None

def compare(doc, acc):
    """-> list of (key, message)"""
    out = []
    for feat in sorted(set(doc) | set(acc)):
        if feat not in acc:
            out.append(('catalogue/%s/documented-not-accepted' % feat, 'feature `%s` is documented (section "%s") but no parser reads it' % (feat, doc[feat]['section']))); continue
        if feat not in doc:
            out.append(('catalogue/%s/accepted-not-documented' % feat, 'feature `%s` is parsed (%s) but not documented' % (feat, acc[feat]['file']))); continue
        d, a = doc[feat], acc[feat]
        for m in d['modes']:
            if m not in a['modes']:
                out.append(('catalogue/%s.mode=%s/documented-not-accepted' % (feat, m), 'src/lib.rs documents %s(mode = "%s") but src/%s accepts only %s' % (feat, m, a['file'], a['modes'])))
        for m in a['modes']:
            if m not in d['modes']:
                out.append(('catalogue/%s.mode=%s/accepted-not-documented' % (feat, m), '%s(mode = "%s") is accepted but not documented' % (feat, m)))
        dp = set(d['params']) - ({'mode'} if not d['modes'] else set())
        ap = set(a['params'])
        for p in sorted(dp - ap):
            out.append(('catalogue/%s.%s/documented-not-read' % (feat, p), 'parameter `%s` of `%s` is documented but src/%s reads %s' % (p, feat, a['file'], sorted(ap))))
        for p in sorted(ap - dp):
            out.append(('catalogue/%s.%s/read-not-documented' % (feat, p), 'src/%s reads a parameter `%s` of `%s` that the documentation does not list (documented: %s)' % (a['file'], p, feat, sorted(dp))))
    return out
