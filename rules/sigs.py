"""Type-shape predicates over interned type JSON (used by C19 / C15)."""

def T(cr, t):
    return cr.T(t)

def is_enum(inst, t):
    t = inst.crate.T(t)
    return t['k'] == 'adt' and t.get('path') == inst.enum_path

def is_repr(inst, t):
    t = inst.crate.T(t)
    return t['k'] == 'int' and t['name'] == inst.repr

def is_option_of(inst, t, pred):
    t = inst.crate.T(t)
    return t['k'] == 'adt' and t['path'] == 'core::option::Option' and len(t['args']) == 1 and pred(t['args'][0])

def is_result_unit_err(inst, t, pred):
    cr = inst.crate
    t = cr.T(t)
    if not (t['k'] == 'adt' and t['path'] == 'core::result::Result' and len(t['args']) == 2 and pred(t['args'][0])):
        return False
    e = cr.T(t['args'][1])
    return e['k'] == 'tuple' and not e['elems']

def is_static_str(inst, t):
    cr = inst.crate
    t = cr.T(t)
    return t['k'] == 'ref' and not t['mut'] and cr.T(t['to'])['k'] == 'str' and t['s'].startswith("&'static ")

def is_str_ref(inst, t):
    cr = inst.crate
    t = cr.T(t)
    return t['k'] == 'ref' and not t['mut'] and cr.T(t['to'])['k'] == 'str'

def is_unit(inst, t):
    t = inst.crate.T(t)
    return t['k'] == 'tuple' and not t['elems']

def is_adt(inst, t, path):
    t = inst.crate.T(t)
    return t['k'] == 'adt' and t.get('path') == path

def show(inst, t):
    return inst.crate.T(t)['s']
