"""Constant folding of terms (DESIGN.md 1, 4.3): literals, Neg, wrapping_sub/add, RangeInclusive::new,
aggregates, named constants and promoteds (by folding *their* straight-line MIR), `as` casts and
discriminant reads of constant variants.  This is constant propagation, not execution of derived functions:
only constant initialisers and constant sub-terms are ever folded."""
from .mir import Body, UNKNOWN


class Unfoldable(Exception):
    pass


INT_BITS = {'i8': 8, 'u8': 8, 'i16': 16, 'u16': 16, 'i32': 32, 'u32': 32, 'i64': 64, 'u64': 64, 'i128': 128, 'u128': 128}


def int_bits(name, pointer_bits=64):
    if name in ('isize', 'usize'):
        return pointer_bits
    return INT_BITS[name]


def wrap(v, ty, pointer_bits=64):
    b = int_bits(ty, pointer_bits)
    m = 1 << b
    v %= m
    if ty[0] == 'i' and v >= m >> 1:
        v -= m
    return v


def ty_range(ty, pointer_bits=64):
    b = int_bits(ty, pointer_bits)
    if ty[0] == 'i':
        return -(1 << (b - 1)), (1 << (b - 1)) - 1
    return 0, (1 << b) - 1


class Folder:
    """folds terms of one crate; caches named constants"""

    def __init__(self, crate):
        self.crate = crate
        self.cache = {}
        self.bodies = {}

    def body(self, path, promoted=None):
        key = (path, promoted)
        if key not in self.bodies:
            b = self.crate.bodies.get(path)
            if b is None:
                raise Unfoldable('no body for %s' % path)
            if promoted is None:
                self.bodies[key] = Body(self.crate, path, b['mir'])
            else:
                self.bodies[key] = Body(self.crate, '%s[promoted %d]' % (path, promoted), b['promoted'][promoted], owner=path)
        return self.bodies[key]

    def named(self, path, promoted=None):
        key = (path, promoted)
        if key in self.cache:
            v = self.cache[key]
            if isinstance(v, Unfoldable):
                raise v
            return v
        try:
            b = self.body(path, promoted)
            alts = b.ret_alternatives()
            if len(alts) != 1:
                raise Unfoldable('constant %s has %d return definitions' % (path, len(alts)))
            if b.loops():
                raise Unfoldable('constant %s has a loop' % path)
            v = self.fold(alts[0][1])
        except Unfoldable as e:
            self.cache[key] = e
            raise
        self.cache[key] = v
        return v

    def enum_discr(self, path, variant):
        adt = self.crate.adts.get(path)
        if not adt or 'variants' not in adt:
            raise Unfoldable('not a local enum: %s' % path)
        for v in adt['variants']:
            if v['name'] == variant:
                return ('int', self.crate.T(adt['discr_ty'])['name'], int(v['discr']))
        raise Unfoldable('no variant %s' % variant)

    def fold(self, t):
        """value forms: ('int', ty, v) | ('bool', b) | ('str', bytes) | ('array', [..]) | ('tuple', [..]) |
        ('range', lo_int, hi_int) | ('variant', enum_path, name) | ('unit',) | ('ref', value)"""
        k = t[0]
        pb = self.crate.pointer_bits
        if k in ('int', 'bool', 'str', 'unit'):
            return t
        if k == 'named':
            return self.named(t[1])
        if k == 'promoted':
            return self.named(t[1], t[2])
        if k == 'ref':
            return ('ref', self.fold(t[1]))
        if k == 'deref':
            v = self.fold(t[1])
            if v[0] == 'ref':
                return v[1]
            raise Unfoldable('deref of non-ref')
        if k == 'unsize':
            return self.fold(t[1])
        if k == 'agg':
            kind = t[1]
            if kind == 'array':
                return ('array', [self.fold(x) for x in t[2]])
            if kind == 'tuple':
                if not t[2]:
                    return ('unit',)
                return ('tuple', [self.fold(x) for x in t[2]])
            if kind.startswith('adt|'):
                _, path, variant = kind.split('|', 2)
                adt = self.crate.adts.get(path)
                if adt and 'variants' in adt and not t[2]:
                    return ('variant', path, variant)
                return ('adt', path, variant, [self.fold(x) for x in t[2]])
            raise Unfoldable('aggregate ' + kind)
        if k == 'enumbits':
            adt = self.crate.adts.get(t[1])
            if adt and 'variants' in adt:
                dty = self.crate.T(adt['discr_ty'])['name']
                for v in adt['variants']:
                    if wrap(int(v['discr']), 'u' + dty[1:], pb) == t[2] or int(v['discr']) == t[2]:
                        return ('variant', t[1], v['name'])
            raise Unfoldable('enum bits')
        if k == 'discr':
            v = self.fold(t[1])
            if v[0] == 'variant':
                return self.enum_discr(v[1], v[2])
            raise Unfoldable('discriminant of non-variant')
        if k == 'cast':
            v = self.fold(t[3])
            if v[0] == 'int' and t[2] in INT_BITS or t[2] in ('usize', 'isize'):
                return ('int', t[2], wrap(v[2], t[2], pb))
            raise Unfoldable('cast')
        if k == 'un':
            v = self.fold(t[2])
            if t[1] == 'Neg' and v[0] == 'int':
                lo, hi = ty_range(v[1], pb)
                r = -v[2]
                if not lo <= r <= hi:
                    raise Unfoldable('negation overflows %s' % v[1])
                return ('int', v[1], r)
            if t[1] == 'Not' and v[0] == 'bool':
                return ('bool', not v[1])
            raise Unfoldable('unop ' + t[1])
        if k == 'bin':
            a = self.fold(t[2]); b = self.fold(t[3])
            if a[0] == 'int' and b[0] == 'int':
                op = t[1]
                if op in ('Add', 'Sub', 'Mul', 'Add_checked', 'Sub_checked'):
                    r = {'Add': a[2] + b[2], 'Sub': a[2] - b[2], 'Mul': a[2] * b[2], 'Add_checked': a[2] + b[2], 'Sub_checked': a[2] - b[2]}[op]
                    lo, hi = ty_range(a[1], pb)
                    if not lo <= r <= hi:
                        raise Unfoldable('arithmetic overflow')
                    return ('int', a[1], r)
                if op in ('Lt', 'Le', 'Gt', 'Ge', 'Eq', 'Ne'):
                    return ('bool', {'Lt': a[2] < b[2], 'Le': a[2] <= b[2], 'Gt': a[2] > b[2], 'Ge': a[2] >= b[2], 'Eq': a[2] == b[2], 'Ne': a[2] != b[2]}[op])
            raise Unfoldable('binop')
        if k == 'call':
            key = t[1]
            args = t[2]
            if key == 'int::wrapping_sub':
                a = self.fold(args[0]); b = self.fold(args[1])
                if a[0] == 'int' and b[0] == 'int':
                    return ('int', a[1], wrap(a[2] - b[2], a[1], pb))
            if key == 'int::wrapping_add':
                a = self.fold(args[0]); b = self.fold(args[1])
                if a[0] == 'int' and b[0] == 'int':
                    return ('int', a[1], wrap(a[2] + b[2], a[1], pb))
            if key == 'core::ops::range::RangeInclusive::new':
                a = self.fold(args[0]); b = self.fold(args[1])
                if a[0] == 'int' and b[0] == 'int':
                    return ('range', a, b)
            raise Unfoldable('call ' + str(key))
        if k == 'field':
            v = self.fold(t[1])
            if v[0] == 'tuple':
                return v[1][t[2]]
            raise Unfoldable('field')
        if k == 'index':
            v = self.fold(t[1]); i = self.fold(t[2])
            if v[0] == 'array' and i[0] == 'int' and 0 <= i[2] < len(v[1]):
                return v[1][i[2]]
            raise Unfoldable('index')
        if k == 'repeat':
            v = self.fold(t[1])
            if t[2] is not None:
                return ('array', [v] * t[2])
        raise Unfoldable('term %s' % (k if k != UNKNOWN else 'unknown:' + str(t[1])))

    def try_fold(self, t):
        try:
            return self.fold(t)
        except Unfoldable:
            return None
