"""Debug helper: render a dumped MIR body as compact text."""
import json, sys
TY=[]
CAL=[]
def T(i): return TY[i] if isinstance(i,int) else i
def C(i): return CAL[i] if isinstance(i,int) else i

def place(p):
    s = '_%d' % p['l']
    for e in p['pr']:
        k = e['p']
        if k == 'deref': s = '(*%s)' % s
        elif k == 'field': s = '%s.%d' % (s, e['i'])
        elif k == 'index': s = '%s[_%d]' % (s, e['l'])
        elif k == 'downcast': s = '(%s as %s)' % (s, e.get('name', e['v']))
        elif k == 'constindex': s = '%s[%s%d]' % (s, '-' if e['from_end'] else '', e['offset'])
        else: s = '%s.?%s' % (s, e.get('s'))
    return s

def const(c):
    k = c.get('c')
    if k == 'scalar': return '%s_%s' % (c['v'], T(c['ty'])['s'])
    if k == 'slice' and 'bytes' in c: return json.dumps(bytes(c['bytes']).decode('utf8', 'replace'))
    if k == 'unevaluated':
        return 'const %s%s' % (c['def'], ('[promoted %d]' % c['promoted']) if 'promoted' in c else '')
    if k == 'tyconst': return '%s_%s' % (c.get('v'), T(c['ty'])['s'])
    if k == 'zst':
        t = T(c['ty'])
        if t['k'] == 'fndef': return 'fn ' + C(t['callee'])['pretty']
        return 'zst:' + t['s']
    return 'const?' + c.get('dbg', '')

def operand(o):
    if o['o'] in ('copy', 'move'): return ('move ' if o['o'] == 'move' else '') + place(o['place'])
    if o['o'] == 'const': return const(o['const'])
    return '?' + o.get('s', '')

def rvalue(r):
    k = r['r']
    if k == 'use': return operand(r['op'])
    if k == 'ref': return '&%s%s' % ('mut ' if r['mut'] else '', place(r['place']))
    if k == 'cast': return '%s as %s (%s)' % (operand(r['op']), T(r['ty'])['s'], r['kind'])
    if k == 'binop': return '%s(%s, %s)' % (r['op'], operand(r['a']), operand(r['b']))
    if k == 'unop': return '%s(%s)' % (r['op'], operand(r['a']))
    if k == 'discriminant': return 'discriminant(%s)' % place(r['place'])
    if k == 'aggregate':
        n = r['agg']
        if n == 'adt': n = '%s::%s' % (r['path'], r['variant_name'])
        if n == 'closure': n = 'closure ' + r['path']
        return '%s{%s}' % (n, ', '.join(operand(x) for x in r['ops']))
    if k == 'repeat': return '[%s; %s]' % (operand(r['op']), r.get('n'))
    if k == 'rawptr': return '&raw %s' % place(r['place'])
    return '?' + r.get('s', '')

def render(body, out=sys.stdout):
    m = body
    out.write('  args=%d\n' % m['arg_count'])
    for i, l in enumerate(m['locals']):
        out.write('  let _%d: %s\n' % (i, T(l['ty'])['s']))
    for d in m['debug']:
        out.write('  debug %s => %s\n' % (d['name'], place(d['place'])))
    for i, b in enumerate(m['blocks']):
        out.write('  bb%d%s:\n' % (i, ' (cleanup)' if b['cleanup'] else ''))
        for s in b['st']:
            if s['s'] == 'assign': out.write('    %s = %s\n' % (place(s['place']), rvalue(s['rv'])))
            else: out.write('    %s\n' % json.dumps(s))
        t = b['term']
        k = t.get('t')
        if k == 'goto': out.write('    goto bb%d\n' % t['target'])
        elif k == 'switch': out.write('    switch %s [%s, otherwise: bb%d]\n' % (operand(t['discr']), ', '.join('%s: bb%d' % (a, b2) for a, b2 in t['arms']), t['otherwise']))
        elif k == 'call':
            c = C(t.get('callee'))
            name = c['pretty'] if c else operand(t['func'])
            out.write('    %s = %s(%s) -> %s\n' % (place(t['dest']), name, ', '.join(operand(a) for a in t['args']), 'bb%d' % t['target'] if t['target'] is not None else 'diverge'))
        elif k == 'assert': out.write('    assert(%s == %s, %s) -> bb%d\n' % (operand(t['cond']), t['expected'], t['msg'], t['target']))
        elif k == 'drop': out.write('    drop(%s) -> bb%d\n' % (place(t['place']), t['target']))
        else: out.write('    %s\n' % k)

if __name__ == '__main__':
    d = json.load(open(sys.argv[1]))
    TY[:] = d['types']; CAL[:] = d['callees']
    for path, b in d['bodies'].items():
        if len(sys.argv) > 2 and not any(a in path for a in sys.argv[2:]): continue
        print('==', path, b['kind'])
        render(b['mir'])
        for i, p in enumerate(b.get('promoted', [])):
            print('  -- promoted', i)
            render(p)
