"""Shared recognisers over terms: tables, iterators over tables, elements drawn from them, path enumeration.
(DESIGN.md 4.1 summaries, 4.4 V-elem)"""
from . import tables
from .mir import UNKNOWN, show

IT_NEXT = 'core::iter::traits::iterator::Iterator::next'
IT_NEXT_BACK = 'core::iter::traits::double_ended::DoubleEndedIterator::next_back'
IT_FIND = 'core::iter::traits::iterator::Iterator::find'
IT_RFIND = 'core::iter::traits::double_ended::DoubleEndedIterator::rfind'
IT_MAP = 'core::iter::traits::iterator::Iterator::map'
IT_ZIP = 'core::iter::traits::iterator::Iterator::zip'
IT_ENUMERATE = 'core::iter::traits::iterator::Iterator::enumerate'
IT_COPIED = 'core::iter::traits::iterator::Iterator::copied'
INTO_ITER = 'core::iter::traits::collect::IntoIterator::into_iter'
SLICE_ITER = 'slice::iter'
CONTAINS = 'core::ops::range::RangeInclusive::contains'
R_START = 'core::ops::range::RangeInclusive::start'
R_END = 'core::ops::range::RangeInclusive::end'
R_NEW = 'core::ops::range::RangeInclusive::new'
UNWRAP_UNCHECKED = 'core::option::Option::unwrap_unchecked'
OPT_MAP = 'core::option::Option::map'
OPT_AND_THEN = 'core::option::Option::and_then'
MU_UNINIT = 'core::mem::maybe_uninit::MaybeUninit::uninit'
MU_WRITE = 'core::mem::maybe_uninit::MaybeUninit::write'
MU_ASSUME = 'core::mem::maybe_uninit::MaybeUninit::assume_init'
STR_EQ = 'core::cmp::PartialEq::eq'
WRITE_STR = 'core::fmt::Formatter::write_str'
INDEX = 'core::ops::index::Index::index'


class View:
    """term-level view of one instance: resolves promoteds and named tables"""

    def __init__(self, inst, items, F):
        self.inst = inst
        self.I = items
        self.F = F
        self._prom = {}
        self.used = set()      # kinds of tables the analysed bodies actually read

    def strip(self, t):
        """drop unsize coercions, resolve promoteds to what they borrow, cancel deref(ref)"""
        while True:
            k = t[0]
            if k == 'unsize':
                t = t[1]; continue
            if k == 'promoted':
                t = self.promoted_term(t[1], t[2]); continue
            if k == 'deref':
                inner = self.strip(t[1])
                if inner[0] == 'ref':
                    t = inner[1]; continue
                return ('deref', inner)
            if k == 'ref':
                if t[1][0] == 'deref':
                    # a reborrow `&mut *r` denotes the same place as r: keep the identity (base local) of the original borrow
                    inner = self.strip(t[1][1])
                    if inner[0] == 'ref':
                        return inner
                return ('ref', self.strip(t[1]), t[2], t[3])
            return t

    def promoted_term(self, path, k):
        key = (path, k)
        if key not in self._prom:
            b = self.I.body(path, k)
            alts = b.ret_alternatives() if b else []
            self._prom[key] = alts[0][1] if len(alts) == 1 else (UNKNOWN, 'promoted')
        return self._prom[key]

    def table_ref(self, t):
        """t is a (reference to / value of) a located table constant -> ('T2'|'T3'|'T4', path) or
        ('inline', folded value) for an array aggregate, else None"""
        t = self.strip(t)
        if t[0] == 'ref':
            t = self.strip(t[1])
        if t[0] == 'named':
            k = tables.const_kind_by_path(self.inst, t[1])
            if k in ('T2', 'T3', 'T4'):
                self.used.add(k)
                return (k, t[1])
            return None
        if t[0] == 'agg' and t[1] == 'array':
            v = self.F.try_fold(t)
            if v is not None:
                return ('inline', v)
        return None

    def iter_source(self, t):
        """normal form of an iterator-valued term:
        ('tab', table, 'slice'|'array') | ('zip', a, b) | ('enumerate', a) | ('copied', a) | ('map', a, f) | ('rev', a)
        | ('range', lo_term, hi_term) | None"""
        t = self.strip(t)
        if t[0] == 'ref':
            # &mut it : look through to the iterator's defining term
            return self.iter_source(t[1])
        if t[0] != 'call':
            return None
        key, args = t[1], t[2]
        if key == SLICE_ITER:
            tab = self.table_ref(args[0])
            if tab:
                return ('tab', tab, 'slice')
            # a sub-slice of a table
            a0 = self.strip(args[0])
            if a0[0] == 'ref':
                a0 = self.strip(a0[1])
            if a0[0] == 'deref':
                a0 = self.strip(a0[1])
            if a0[0] == 'call' and a0[1] == INDEX:
                base = self.table_ref(a0[2][0])
                if base:
                    return ('subslice', base, a0[2][1])
                # TABLE[a..][..n]: a sub-slice of a sub-slice
                b0 = self.strip(a0[2][0])
                while b0[0] in ('ref', 'deref'):
                    b0 = self.strip(b0[1])
                if b0[0] == 'call' and b0[1] == INDEX:
                    base = self.table_ref(b0[2][0])
                    if base:
                        return ('subslice2', base, b0[2][1], a0[2][1])
            return None
        if key == INTO_ITER:
            inner = self.iter_source(args[0])
            if inner:
                return inner
            tab = self.table_ref(args[0])
            if tab:
                a0 = self.strip(args[0])
                return ('tab', tab, 'slice' if a0[0] == 'ref' else 'array')
            a0 = self.strip(args[0])
            if a0[0] == 'call' and a0[1] == R_NEW:
                return ('range', a0[2][0], a0[2][1])
            return None
        if key == IT_ZIP:
            a, b = self.iter_source(args[0]), self.iter_source(args[1])
            return ('zip', a, b) if a and b else None
        if key == IT_ENUMERATE:
            a = self.iter_source(args[0])
            return ('enumerate', a) if a else None
        if key == IT_COPIED:
            a = self.iter_source(args[0])
            return ('copied', a) if a else None
        if key == IT_MAP:
            a = self.iter_source(args[0])
            if a is None:
                a0 = self.strip(args[0])
                if a0[0] == 'call' and a0[1] == R_NEW:
                    a = ('range', a0[2][0], a0[2][1])
            return ('map', a, args[1]) if a else None
        if key == 'core::iter::traits::iterator::Iterator::rev':
            a = self.iter_source(args[0])
            return ('rev', a) if a else None
        return None

    def next_call(self, t):
        """t = next(&mut it) / next_back(&mut it) -> (direction, iterator local, source, site) else None"""
        t = self.strip(t)
        if t[0] == 'call' and t[1] in (IT_NEXT, IT_NEXT_BACK) and t[4] is not None:
            a = t[2][0]
            a = self.strip(a)
            loc = None
            if a[0] == 'ref':
                loc = a[2]
            src = self.iter_source(a)
            if src:
                return ('fwd' if t[1] == IT_NEXT else 'bwd', loc, src, t[4])
        return None

    def elem(self, t):
        """t denotes the payload of Some(next(..)): returns (next_call info) else None.
        forms: (next(..) as Some).0 ; unwrap_unchecked(next(..))"""
        t = self.strip(t)
        if t[0] == 'field' and t[2] == 0 and t[1][0] == 'downcast' and t[1][2] == 'Some':
            return self.next_call(t[1][1])
        if t[0] == 'call' and t[1] == UNWRAP_UNCHECKED:
            return self.next_call(t[2][0])
        return None


def simple_paths(body, limit=200000):
    """all simple paths from the entry block; a path ends at a block without successors
    (return / unreachable / diverging call) or just before it would revisit a block ('continue').
    yields (blocks list, end_kind, next_block_or_None)"""
    cached = getattr(body, '_simple_paths', None)
    if cached is not None:
        return cached
    out = []
    # iterative DFS with an explicit path stack and an on-path set (O(1) membership)
    path = [0]
    onpath = {0}
    iters = [iter(body.succ[0])]
    if not body.succ[0]:
        t = body.blocks[0]['term'].get('t')
        out.append(([0], {'return': 'return', 'unreachable': 'unreachable'}.get(t, 'diverge'), None))
    while iters:
        adv = False
        for s in iters[-1]:
            if s in onpath:
                out.append((list(path), 'continue', s))
                continue
            path.append(s); onpath.add(s)
            succ = body.succ[s]
            if not succ:
                t = body.blocks[s]['term'].get('t')
                out.append((list(path), {'return': 'return', 'unreachable': 'unreachable'}.get(t, 'diverge'), None))
                path.pop(); onpath.discard(s)
                continue
            iters.append(iter(succ))
            adv = True
            break
        if not adv:
            iters.pop()
            b = path.pop(); onpath.discard(b)
        if len(out) > limit:
            raise RuntimeError('too many paths')
    body._simple_paths = out
    return out


def path_guards(body, path):
    gs = []
    for a, b in zip(path, path[1:]):
        g = body.edge_guard(a, b)
        if g is not None:
            gs.append((a, g))
    return gs


def path_return(body, path):
    """term of _0 along this path: the last definition of _0 on the path"""
    for b in reversed(path):
        blk = body.blocks[b]
        t = blk['term']
        if t.get('t') == 'call' and t['dest']['l'] == 0 and not t['dest']['pr']:
            return body.def_term(0, (b, 'T'))
        for i in range(len(blk['st']) - 1, -1, -1):
            s = blk['st'][i]
            if s['s'] == 'assign' and s['place']['l'] == 0:
                if s['place']['pr']:
                    return (UNKNOWN, 'partial-return')
                return body.def_term(0, (b, i))
    return (UNKNOWN, 'no-return-def')


def resolve_phi(t, path):
    """path-sensitive reading of a term: a `phi` (several reaching definitions of one local) is replaced by the definition whose
    block comes last on this path; phis whose definitions are not on the path are left alone"""
    if not isinstance(t, tuple) or not t:
        return t
    if t[0] == 'phi':
        pos = {b: i for i, b in enumerate(path)}
        best = None
        for site, alt in t[2]:
            b = site[0] if isinstance(site, tuple) and isinstance(site[0], int) else None
            if b in pos and (best is None or pos[b] > best[0]):
                best = (pos[b], alt)
        return resolve_phi(best[1], path) if best is not None else t
    if t[0] in ('promoted', 'str', 'int', 'named'):
        return t
    return tuple(resolve_phi(x, path) if isinstance(x, tuple) else x for x in t)


def sw_true(g):
    """for a ('sw', cond, sel) guard on a bool: True / False / None"""
    if g[0] != 'sw':
        return None
    sel = g[2]
    if sel == ('not', (0,)) or sel == ('in', (1,)):
        return True
    if sel == ('in', (0,)) or sel == ('not', (1,)):
        return False
    return None


def option_arm(g):
    """for a switch on discr(Option): 'Some' | 'None' | None"""
    if g[0] != 'sw' or g[1][0] != 'discr':
        return None
    sel = g[2]
    if sel == ('in', (1,)) or sel == ('not', (0,)):
        return 'Some'
    if sel == ('in', (0,)) or sel == ('not', (1,)):
        return 'None'
    return None


def is_some(t, enum_variant='Some'):
    return t[0] == 'agg' and t[1].endswith('|' + enum_variant) and t[1].startswith('adt|core::')


def payload(t):
    return t[2][0] if t[2] else None


def is_none(t):
    return t[0] == 'agg' and t[1] == 'adt|core::option::Option|None'


def is_err_unit(t):
    return t[0] == 'agg' and t[1] == 'adt|core::result::Result|Err' and len(t[2]) == 1 and t[2][0] in (('agg', 'tuple', ()), ('unit',))
