"""Table facts T1-T5 (DESIGN.md 4.3).  Tables are located by *type*, never by name."""
from .fold import Unfoldable
from . import mir

GEN = {
    'T1min': 'src/feature/min_const.rs::generate', 'T1max': 'src/feature/max_const.rs::generate',
    'T2': 'src/feature/table_name.rs::generate (+ src/parser/values.rs::parse_values: rename, sort)',
    'T3': 'src/feature/table_enum.rs::generate (+ src/parser/values.rs::parse_values: sort)',
    'T4': 'src/feature/table_range.rs::generate (+ src/parser/mod.rs::Derive::parse: run detection)',
    'T4-offset': 'src/feature/table_range.rs::generate (offset column: b1.wrapping_sub(ofs))',
}

def classify_const(inst, it):
    cr = inst.crate
    if it is None or not it['kind'].startswith('AssocConst'):
        return None
    t = cr.T(it['ty'])
    if t['k'] == 'adt' and t.get('path') == inst.enum_path:
        return 'E'
    if t['k'] == 'array':
        e = cr.T(t['elem'])
        if e['k'] == 'ref' and cr.T(e['to'])['k'] == 'str':
            return 'T2'
        if e['k'] == 'adt' and e.get('path') == inst.enum_path:
            return 'T3'
        if e['k'] == 'tuple' and len(e['elems']) == 2:
            e0 = cr.T(e['elems'][0])
            if e0['k'] == 'adt' and e0['path'] == 'core::ops::range::RangeInclusive':
                return 'T4'
    return None

def located(inst):
    out = {'E': [], 'T2': [], 'T3': [], 'T4': []}
    for name, it in inst.assoc.items():
        k = classify_const(inst, it)
        if k:
            out[k].append(it)
    return out

def const_kind_by_path(inst, path):
    it = inst.crate.items.get(path)
    return classify_const(inst, it)

def check_tables(inst, F, ctx, which):
    """which: subset of {'T1','T2','T3','T4','T4-offset'}.  Every located table of the kinds asked for must
    fold to the specification value computed from the declaration (sidecar) - rustc's own numbering of the
    declaration is compared with the sidecar by C11."""
    loc = located(inst)
    S = inst.S
    def spec_variant(v):
        return ('variant', inst.enum_path, v['ident'])
    if 'T1' in which:
        for f, want, tag in (('MIN', S[0], 'T1min'), ('MAX', S[-1], 'T1max')):
            nm = inst.feature_name(f)
            if nm is None:
                continue
            it = inst.assoc.get(nm)
            if it is None or classify_const(inst, it) != 'E':
                ctx.violation(tag, inst, f, 'requested constant %s is missing from the derive impl' % nm, key='%s/%s/missing' % (ctx.prop, tag), construct=GEN[tag]); continue
            try:
                v = F.named(it['path'])
            except Unfoldable as e:
                ctx.violation(tag, inst, f, 'constant %s does not fold: %s' % (nm, e), kind='unrecognised', construct=GEN[tag]); continue
            if v != spec_variant(want):
                ctx.violation(tag, inst, f, '%s = %s, required %s (the variant with the %s discriminant %d)' % (nm, v[-1], want['ident'], 'smallest' if f == 'MIN' else 'largest', want['value']), key='%s/%s/wrong-variant' % (ctx.prop, tag), construct=GEN[tag])
            else:
                ctx.ok(tag, inst)
    if 'T2' in which:
        for it in loc['T2']:
            try:
                v = F.named(it['path'])
            except Unfoldable as e:
                ctx.violation('T2', inst, it['name'], 'name table does not fold: %s' % e, kind='unrecognised', construct=GEN['T2']); continue
            got = [x[1] if x[0] == 'str' else None for x in (v[1] if v[0] == 'array' else [])]
            want = [n.encode('utf8') for n in inst.names]
            if got != want:
                i = next((i for i in range(min(len(got), len(want))) if got[i] != want[i]), min(len(got), len(want)))
                ctx.violation('T2', inst, it['name'], 'name table differs from [name(v) for v in discriminant order] at index %d: table has %r, required %r (len %d vs %d)' % (
                    i, got[i] if i < len(got) else None, want[i] if i < len(want) else None, len(got), len(want)), key='%s/T2/mismatch' % ctx.prop, construct=GEN['T2'])
            else:
                ctx.ok('T2', inst)
    if 'T3' in which:
        for it in loc['T3']:
            try:
                v = F.named(it['path'])
            except Unfoldable as e:
                ctx.violation('T3', inst, it['name'], 'variant table does not fold: %s' % e, kind='unrecognised', construct=GEN['T3']); continue
            got = [x[2] if x[0] == 'variant' else None for x in (v[1] if v[0] == 'array' else [])]
            want = [x['ident'] for x in S]
            if got != want:
                i = next((i for i in range(min(len(got), len(want))) if got[i] != want[i]), min(len(got), len(want)))
                ctx.violation('T3', inst, it['name'], 'variant table is not the variants in discriminant order: index %d has %r, required %r (len %d vs %d)' % (
                    i, got[i] if i < len(got) else None, want[i] if i < len(want) else None, len(got), len(want)), key='%s/T3/mismatch' % ctx.prop, construct=GEN['T3'])
            else:
                ctx.ok('T3', inst)
    if 'T4' in which or 'T4-offset' in which:
        for it in loc['T4']:
            r = fold_range_table(inst, F, it['path'])
            if isinstance(r, str):
                ctx.violation('T4', inst, it['name'], r, kind='unrecognised', construct=GEN['T4']); continue
            runs, offs = r
            # cross-check of the folder against rustc's own constant evaluation of the same initialiser (a disagreement is a
            # defect of this machinery, not of /repo)
            cv = it.get('ctfe')
            if cv:
                import re
                from .fold import ty_range
                got = []
                for m in re.finditer(r'(-?\d+)_[iu](?:8|16|32|64|128|size)|([iu](?:8|16|32|64|128|size))::(MIN|MAX)', cv):
                    if m.group(1) is not None:
                        got.append(int(m.group(1)))
                    else:
                        lo_, hi_ = ty_range(m.group(2), inst.crate.pointer_bits)
                        got.append(lo_ if m.group(3) == 'MIN' else hi_)
                mine = []
                for i, (lo, hi) in enumerate(runs):
                    mine += [lo, hi] + ([offs[i]] if offs is not None else [])
                if got != mine:
                    ctx.error('constant folder disagrees with rustc CTFE on %s of %s: %s vs %s' % (it['name'], inst.id, mine[:9], got[:9]))
                else:
                    ctx.ok('fold==ctfe', inst)
            if 'T4' in which:
                if runs != inst.runs:
                    ctx.violation('T4', inst, it['name'], 'range table %s is not the maximal runs of the declared discriminants %s' % (short(runs), short(inst.runs)), key='%s/T4/runs' % ctx.prop, construct=GEN['T4'])
                else:
                    ctx.ok('T4', inst)
            if 'T4-offset' in which and offs is not None:
                before = 0
                bad = None
                for i, (b, e) in enumerate(inst.runs):
                    want = inst.wrap(b - before)
                    if i < len(offs) and offs[i] != want:
                        bad = (i, offs[i], want, b, before); break
                    before += e - b + 1
                if bad or len(offs) != len(inst.runs):
                    if bad:
                        d = 'entry %d of the range table has offset %d, required run_start - variants_before = %d - %d = %d (mod 2^%d)' % (bad[0], bad[1], bad[3], bad[4], bad[2], inst.bits)
                        cls = 'negative-run' if bad[3] < 0 else ('third-or-later-run' if bad[0] >= 2 else 'run')
                    else:
                        d, cls = 'offset column has %d entries for %d runs' % (len(offs), len(inst.runs)), 'len'
                    ctx.violation('T4-offset', inst, it['name'], d, key='%s/T4-offset/%s' % (ctx.prop, cls), construct=GEN['T4-offset'])
                else:
                    ctx.ok('T4-offset', inst)

def fold_range_table(inst, F, path):
    """-> (runs [(lo,hi)], offsets [int] | None) or an error string"""
    try:
        v = F.named(path)
    except Unfoldable as e:
        return 'range table does not fold: %s' % e
    if v[0] != 'array':
        return 'range table is not an array'
    runs, offs, unit = [], [], False
    for x in v[1]:
        if x[0] != 'tuple' or len(x[1]) != 2 or x[1][0][0] != 'range':
            return 'range table entry has unexpected shape'
        rg = x[1][0]
        runs.append((rg[1][2], rg[2][2]))
        if x[1][1][0] == 'int':
            offs.append(x[1][1][2])
        elif x[1][1][0] == 'unit':
            unit = True
        else:
            return 'range table second column has unexpected shape'
    if unit and offs:
        return 'range table mixes () and integer offsets'
    return runs, (None if unit else offs)

def short(runs):
    s = ', '.join('%d..=%d' % r for r in runs[:8])
    if len(runs) > 8:
        s += ', ... (%d runs)' % len(runs)
    return '[' + s + ']'
