"""Linear typestate on the generator's MIR (DESIGN.md 5 C13): every `Params` obtained from `FeatureParser::get`
is consumed by `Params::finish` on every normal path; the `FeatureParser` is consumed by `FeatureParser::finish`
after the last `get`; inside both `finish` bodies every leftover reaches a diagnostic `emit`.
This is a rule about moves on resolved MIR, so it does not care how the parser bodies are written."""
from .mir import Body, show
from . import shapes as S

def _impl_name(cr, c):
    if c and 'impl_self' in c:
        return cr.T(c['impl_self'])['s'].split('::')[-1], c['name']
    return None, None

def subterm(t, x):
    if t == x:
        return True
    if isinstance(t, tuple):
        return any(subterm(y, x) for y in t if isinstance(y, tuple))
    return False

def check(cr, ctx):
    n_get_fns = 0
    for path, b in sorted(cr.bodies.items()):
        if 'mir' not in b or b['kind'] not in ('Fn', 'AssocFn'):
            continue
        body = Body(cr, path, b['mir'])
        calls = body.calls()
        gets = [(blk, body.call_term(t, blk)) for blk, key, c, t in calls if _impl_name(cr, c) == ('FeatureParser', 'get')]
        fins = [(blk, [body.operand(a, (blk, 'T')) for a in t['args']]) for blk, key, c, t in calls if _impl_name(cr, c) == ('Params', 'finish')]
        if gets:
            n_get_fns += 1
            paths = [p for p in S.simple_paths(body) if p[1] == 'return']
            for gblk, G in gets:
                ok = True
                for pblocks, kind, _ in paths:
                    if gblk not in pblocks:
                        continue
                    gs = S.path_guards(body, pblocks)
                    took_some = any(g[0] == 'sw' and g[1][0] == 'discr' and subterm(g[1], G) and S.option_arm(g) == 'Some' for _, g in gs)
                    if not took_some:
                        continue
                    after = pblocks[pblocks.index(gblk) + 1:]
                    if not any(fb in after and any(subterm(a, G) for a in args[:1]) for fb, args in fins):
                        ok = False
                        ctx.violation('typestate-params', None, path, 'in %s the Params returned by FeatureParser::get (bb%d) reaches a return without being passed to Params::finish: unknown parameters of this feature would be silently ignored (path %s)' % (
                            path, gblk, pblocks[:12]), key='C13/typestate-params/%s' % path, construct=path)
                        break
                if ok:
                    ctx.ok('typestate-params')
        # the FeatureParser itself
        fp_fin = [blk for blk, key, c, t in calls if _impl_name(cr, c) == ('FeatureParser', 'finish')]
        parses = [blk for blk, key, c, t in calls if c and c['local'] and c['name'] == 'parse' and c['path'].startswith('enum_tools::feature::')]
        if path.endswith('::Derive::parse') or (parses and len(parses) >= 10):
            if not fp_fin:
                ctx.violation('typestate-parser', None, path, '%s parses the features but never calls FeatureParser::finish: unknown features would be silently ignored' % path, key='C13/typestate-parser/missing', construct=path)
            else:
                fb = fp_fin[0]
                if not all(body.dominates(fb, rb) for rb in body.returns()):
                    ctx.violation('typestate-parser', None, path, 'FeatureParser::finish (bb%d) does not dominate every return of %s' % (fb, path), key='C13/typestate-parser/dominance', construct=path)
                elif any(body.can_reach(fb, pb) and pb != fb for pb in parses):
                    ctx.violation('typestate-parser', None, path, 'a feature parser runs after FeatureParser::finish in %s' % path, key='C13/typestate-parser/order', construct=path)
                else:
                    ctx.ok('typestate-parser')
        # finish bodies: every leftover is reported
        nm = _impl_name(cr, {'impl_self': None, 'name': None}) if False else None
        if path.endswith('::finish') and ('parser::params' in path or 'parser::feature' in path):
            loops = body.loops()
            emits = {blk for blk, key, c, t in calls if c and c['path'].startswith('proc_macro_error::') and c['name'] == 'emit'}
            if len(loops) != 1:
                ctx.violation('finish-reports', None, path, '%s has %d loops; expected one loop over the leftovers' % (path, len(loops)), key='C13/finish-reports/%s' % path, construct=path, kind='unrecognised')
            else:
                (hdr, lb), = loops.items()
                good = True
                for pblocks, kind, nxt in S.simple_paths(body):
                    if kind != 'continue' or nxt != hdr:
                        continue
                    seg = pblocks[pblocks.index(hdr):]
                    if not any(x in emits for x in seg):
                        good = False
                        ctx.violation('finish-reports', None, path, 'an iteration of the leftover loop in %s completes without emitting a diagnostic (blocks %s): leftovers are dropped silently' % (path, seg), key='C13/finish-reports/%s' % path, construct=path)
                        break
                if good and not emits:
                    ctx.violation('finish-reports', None, path, '%s never emits a diagnostic' % path, key='C13/finish-reports/%s' % path, construct=path)
                elif good:
                    ctx.ok('finish-reports')
    return n_get_fns
