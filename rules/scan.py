"""Path analysis of derived functions whose integer input is touched only through `+/- const`, integer casts,
comparisons with constants and scans of the run table (DESIGN.md 5 C01/C05, 4.4 V-member / V-bounds / V-edge).

For every simple path of the CFG the set of inputs that takes it is computed as an interval set:
  * comparison guards  E(x) op const   with E piecewise affine            -> pa.cmp_region
  * a value drawn from the run table by next()/next_back()/find() is *specialised per table entry*:
    the code after the draw is evaluated once per entry with that entry substituted as a constant
    (first-match semantics: entry i is reached only for inputs no earlier entry accepted);
    the exhausted exit is taken by the inputs no entry accepted.
The result is a list of outcomes (input region, how the path ends, the returned term with entries
substituted).  Nothing is executed and no input value is enumerated: the cost is
(#paths x #table entries) interval operations.
"""
from . import ivl, shapes as S
from .pa import PA, eval_affine, NotAffine, TooManyPieces
from .fold import ty_range
from .mir import show, UNKNOWN, field as mir_field
from .tables import fold_range_table

MIRROR = {'Lt': 'Gt', 'Le': 'Ge', 'Gt': 'Lt', 'Ge': 'Le', 'Eq': 'Eq', 'Ne': 'Ne'}
NEG = {'Lt': 'Ge', 'Le': 'Gt', 'Gt': 'Le', 'Ge': 'Lt', 'Eq': 'Ne', 'Ne': 'Eq'}
NONE = ('agg', 'adt|core::option::Option|None', ())


def SOME(x):
    return ('agg', 'adt|core::option::Option|Some', (x,))


class Unrecognised(Exception):
    pass


def mentions(t, var):
    if t == var:
        return True
    if isinstance(t, tuple):
        return any(mentions(x, var) for x in t if isinstance(x, tuple))
    return False


def entry_const(ty, lo, hi, off):
    rng = ('call', S.R_NEW, (('int', ty, lo), ('int', ty, hi)), None, None)
    second = ('int', ty, off) if off is not None else ('unit',)
    return ('agg', 'tuple', (rng, second))


class Scanner:
    def __init__(self, V, body, var, dom):
        self.V = V
        self.body = body
        self.var = var
        self.dom = ivl.norm(dom)
        self.inst = V.inst
        self.pb = V.inst.crate.pointer_bits
        self.ty = V.inst.repr
        self.tlo, self.thi = ty_range(self.ty, self.pb)
        self.var_pa = PA.ident(self.dom, self.ty)
        self.panics = []          # (region, description) of reachable panic edges
        self.ub = []              # (region, description) of reachable undefined behaviour
        self.obligations = []     # (kind, site, discharged, detail)
        self.tables = {}
        self.loops = body.loops()
        self.scan_headers = {}

    # ------------------------------------------------------------- tables
    def entries(self, src, direction):
        """constant entries of the table behind iterator source src in iteration order"""
        if src[0] != 'tab' or src[1][0] != 'T4':
            raise Unrecognised('value drawn from something that is not an iterator over the whole run table: %r' % (src[:2],))
        path = src[1][1]
        if path not in self.tables:
            r = fold_range_table(self.inst, self.V.F, path)
            if isinstance(r, str):
                raise Unrecognised(r)
            self.tables[path] = r
        runs, offs = self.tables[path]
        es = [(runs[i][0], runs[i][1], offs[i] if offs is not None else None) for i in range(len(runs))]
        if direction == 'bwd':
            es = es[::-1]
        return es

    def entry_term(self, src, lo, hi, off):
        e = entry_const(self.ty, lo, hi, off)
        # slice::Iter yields references to the entries, array::IntoIter the entries themselves
        return ('ref', e, None, None) if src[2] == 'slice' else e

    # ------------------------------------------------------------- term rewriting under bindings
    def rewrite(self, t, st):
        """substitute bound draws, simplify"""
        V = self.V
        if not isinstance(t, tuple) or not t:
            return t
        k = t[0]
        if k in ('int', 'bool', 'str', 'unit', 'arg', 'named', 'fn', UNKNOWN):
            return t
        if k == 'call' and t[1] in (S.IT_NEXT, S.IT_NEXT_BACK, S.IT_FIND, S.IT_RFIND) and t[4] is not None:
            site = t[4]
            if site in st['binds']:
                return st['binds'][site]
            return t
        if k == 'promoted':
            return self.rewrite(V.promoted_term(t[1], t[2]), st)
        if k == 'unsize':
            return self.rewrite(t[1], st)
        if k == 'ref':
            return ('ref', self.rewrite(t[1], st), None, None)
        if k == 'deref':
            x = self.rewrite(t[1], st)
            if x[0] == 'ref':
                return x[1]
            return ('deref', x)
        if k == 'field':
            x = self.rewrite(t[1], st)
            if x[0] == 'downcast' and x[1][0] == 'agg' and x[1][1].endswith('|' + str(x[2])):
                x = x[1]
            if x[0] == 'agg' and t[2] < len(x[2]):
                return x[2][t[2]]
            return ('field', x, t[2])
        if k == 'downcast':
            return ('downcast', self.rewrite(t[1], st), t[2])
        if k == 'call':
            key = t[1]
            args = tuple(self.rewrite(a, st) for a in t[2])
            if key == S.UNWRAP_UNCHECKED and args[0][0] == 'agg' and args[0][1].endswith('|Some'):
                return args[0][2][0]
            if key == S.UNWRAP_UNCHECKED and args[0] == NONE:
                self.ub.append((list(st['region']), 'unwrap_unchecked() is reached with None: the run table is exhausted before an entry contains the input'))
                return (UNKNOWN, 'unwrap_unchecked(None)')
            if key in (S.R_START, S.R_END):
                r = args[0]
                if r[0] == 'ref':
                    r = r[1]
                if r[0] == 'call' and r[1] == S.R_NEW:
                    return ('ref', r[2][0 if key == S.R_START else 1], None, None)
            if key in (S.OPT_MAP, S.OPT_AND_THEN) and args[0][0] == 'agg':
                if args[0][1].endswith('|None'):
                    return NONE
                if args[0][1].endswith('|Some') and args[1][0] == 'agg' and args[1][1].startswith('closure|'):
                    r = self.apply_closure(args[1], args[0][2][0], st)
                    return SOME(r) if key == S.OPT_MAP else r
            return ('call', key, args, t[3], t[4])
        if k in ('cast',):
            return ('cast', t[1], t[2], self.rewrite(t[3], st))
        if k == 'transmute':
            return ('transmute', t[1], self.rewrite(t[2], st))
        if k == 'bin' or k == 'binov' or k == 'ovf':
            return (k, t[1], self.rewrite(t[2], st), self.rewrite(t[3], st))
        if k == 'un':
            return ('un', t[1], self.rewrite(t[2], st))
        if k == 'discr':
            return ('discr', self.rewrite(t[1], st))
        if k == 'agg':
            return ('agg', t[1], tuple(self.rewrite(a, st) for a in t[2]))
        if k == 'index':
            return ('index', self.rewrite(t[1], st), self.rewrite(t[2], st))
        return t

    def apply_closure(self, clo, param, st):
        path = clo[1].split('|', 1)[1]
        b = self.V.I.body(path)
        if b is None:
            raise Unrecognised('closure body missing')
        alts = b.ret_alternatives()
        if len(alts) != 1 or b.loops():
            raise Unrecognised('closure %s is not straight-line' % path.split('::')[-2:])
        # obligations inside the closure are reported by the caller (they are looked up per body)
        env_ty = self.inst.crate.T(b.locals[1]['ty'])
        env = ('ref', clo, None, None) if env_ty['k'] == 'ref' else clo
        t = subst_args(alts[0][1], {0: env, 1: param})
        return self.rewrite(t, st)

    # ------------------------------------------------------------- draws
    def unbound_draw(self, t, st):
        """first unbound next()/next_back() call site inside t (depth-first) -> (site, direction, local, src) or None"""
        if not isinstance(t, tuple) or not t:
            return None
        if t[0] == 'call' and t[1] in (S.IT_NEXT, S.IT_NEXT_BACK) and t[4] is not None and t[4] not in st['binds']:
            nc = self.V.next_call(t)
            if nc is None:
                raise Unrecognised('next() on something that is not an iterator over a derived table: %s' % show(t))
            if nc[1] is None:
                raise Unrecognised('cannot tell which iterator %s advances (it is reached through a projection of a reference)' % show(t)[:120])
            return (t[4], nc[0], nc[1], nc[2])
        if t[0] == 'call' and t[1] in (S.IT_FIND, S.IT_RFIND) and t[4] is not None and t[4] not in st['binds']:
            a = self.V.strip(t[2][0])
            loc = a[2] if a[0] == 'ref' else None
            src = self.V.iter_source(a)
            clo = self.V.strip(t[2][1])
            if src is None or clo[0] != 'agg' or not clo[1].startswith('closure|'):
                raise Unrecognised('find() on something that is not an iterator over a derived table: %s' % show(t))
            if loc is None:
                raise Unrecognised('cannot tell which iterator %s advances (it is reached through a projection of a reference)' % show(t)[:120])
            return (t[4], ('find', clo, 'fwd' if t[1] == S.IT_FIND else 'bwd'), loc, src)
        if t[0] == 'promoted':
            return None
        for x in t:
            if isinstance(x, tuple):
                r = self.unbound_draw(x, st)
                if r:
                    return r
        return None

    def is_scan_header(self, site):
        """the draw at `site` is the head of a loop whose every back edge is taken only when the drawn run does not
        contain the input (so the loop is a first-match scan)"""
        blk = site[1]
        if blk in self.scan_headers:
            return self.scan_headers[blk]
        res = False
        hdr = None
        for h, blocks in self.loops.items():
            if blk in blocks:
                hdr = h
        if hdr is not None:
            res = True
            for path, kind, nxt in self.paths:
                if kind != 'continue' or nxt != hdr or blk not in path:
                    continue
                i = path.index(hdr)
                seg = path[i:] + [hdr]
                ok = False
                for b, g in S.path_guards(self.body, seg):
                    arm = S.option_arm(g)
                    if arm == 'Some' and self.V.next_call(g[1][1]):
                        continue
                    tv = S.sw_true(g)
                    mg = self.member_guard(g[1]) if g[0] == 'sw' else None
                    if mg and tv is False and mg[1] == self.var and mg[0] == site:
                        ok = True
                        continue
                    raise Unrecognised('loop continues under a condition other than "the drawn run does not contain the input": %s %s' % (show(g[1]), g[2]))
                if not ok:
                    raise Unrecognised('loop continues without testing the drawn run')
        self.scan_headers[blk] = res
        return res

    def member_guard(self, t):
        """contains(&draw.0, &x) with draw an (unsubstituted) table draw -> (site, x) else None"""
        V = self.V
        t = V.strip(t)
        if t[0] != 'call' or t[1] != S.CONTAINS:
            return None
        r, x = V.strip(t[2][0]), V.strip(t[2][1])
        if r[0] == 'ref':
            r = V.strip(r[1])
        if x[0] == 'ref':
            x = V.strip(x[1])
        if r[0] == 'field' and r[2] == 0:
            base = V.strip(r[1])
            if base[0] == 'deref':
                base = V.strip(base[1])
            e = V.elem(base)
            if e:
                return e[3], x
        return None

    # ------------------------------------------------------------- regions of conditions
    def cond_region(self, cond, outcome, st):
        """input region (within var's domain) where boolean term cond == outcome"""
        if cond[0] == 'bool':
            return list(self.dom) if cond[1] == outcome else []
        if cond[0] == 'call' and cond[1] == 'core::iter::traits::iterator::Iterator::any' and len(cond[2]) == 2:
            # any(table.iter() / into_iter(table), pred): the inputs for which some entry satisfies the predicate
            src = self.V.iter_source(cond[2][0])
            clo = self.V.strip(cond[2][1])
            if src is None or src[0] != 'tab' or clo[0] != 'agg' or not str(clo[1]).startswith('closure|'):
                raise Unrecognised('any() on something that is not an iterator over a derived table: %s' % show(cond)[:200])
            hit = []
            for lo, hi, off in self.entries(src, 'fwd'):
                ent = self.entry_term(src, lo, hi, off)
                param = ent if src[2] == 'array' else ('ref', ent, None, None)
                hit = ivl.union(hit, self.cond_region(self.apply_closure(clo, param, st), True, st))
            return hit if outcome else ivl.diff(list(self.dom), hit, self.tlo, self.thi)
        if cond[0] == 'un' and cond[1] == 'Not':
            return self.cond_region(cond[2], not outcome, st)
        if cond[0] == 'call' and cond[1] == S.CONTAINS:
            r, x = cond[2][0], cond[2][1]
            if r[0] == 'ref':
                r = r[1]
            if x[0] == 'ref':
                x = x[1]
            if r[0] == 'call' and r[1] == S.R_NEW:
                lo = self.V.F.try_fold(r[2][0]); hi = self.V.F.try_fold(r[2][1])
                if lo and hi and lo[0] == 'int' and hi[0] == 'int':
                    if x == self.var:
                        # membership of the input itself: clip the region (O(log n)) instead of evaluating a function
                        inside = ivl.clip(st['region'], lo[2], hi[2])
                        return inside if outcome else ivl.diff(st['region'], inside, self.tlo, self.thi)
                    f = self.affine(x, region=st['region'])
                    inside = ivl.intersect(f.cmp_region('Ge', lo[2]), f.cmp_region('Le', hi[2]))
                    return inside if outcome else ivl.diff(st['region'], inside, self.tlo, self.thi)
            raise Unrecognised('membership test against a range that is not a table entry: %s' % show(cond))
        if cond[0] == 'bin' and cond[1] in MIRROR:
            op, a, b = cond[1], cond[2], cond[3]
            ma, mb = mentions(a, self.var), mentions(b, self.var)
            if ma and not mb:
                lhs, rhs = a, b
            elif mb and not ma:
                lhs, rhs, op = b, a, MIRROR[op]
            elif not ma and not mb:
                ca, cb = self.V.F.try_fold(a), self.V.F.try_fold(b)
                if ca and cb and ca[0] == 'int' and cb[0] == 'int':
                    v = {'Lt': ca[2] < cb[2], 'Le': ca[2] <= cb[2], 'Gt': ca[2] > cb[2], 'Ge': ca[2] >= cb[2], 'Eq': ca[2] == cb[2], 'Ne': ca[2] != cb[2]}[op]
                    return list(self.dom) if v == outcome else []
                raise Unrecognised('comparison the rule set cannot evaluate: %s' % show(cond))
            else:
                raise Unrecognised('comparison with the input on both sides: %s' % show(cond))
            c = self.V.F.try_fold(rhs)
            if c is None or c[0] != 'int':
                raise Unrecognised('comparison with a non-constant: %s' % show(cond))
            f = self.affine(lhs, region=st['region'])
            return f.cmp_region(op if outcome else NEG[op], c[2])
        raise Unrecognised('unclassified branch condition: %s' % show(cond))

    def affine(self, t, panics=None, region=None):
        """t as a piecewise-affine function of the input; region (an interval set) restricts the input first"""
        try:
            vp = self.var_pa if region is None else self.var_pa.restrict(region)
            return eval_affine(t, self.var, vp, self.V.F, self.pb, panics)
        except NotAffine as e:
            raise Unrecognised('not a supported integer expression of the input (%s): %s' % (e, show(t)))
        except TooManyPieces:
            raise Unrecognised('a narrowing cast splits the input range into more than 4096 pieces (the value is truncated): %s' % show(t))

    # ------------------------------------------------------------- main
    def run(self):
        self.paths = S.simple_paths(self.body)
        outcomes = []
        for path, kind, nxt in self.paths:
            if kind == 'continue':
                continue
            gs = S.path_guards(self.body, path)
            states = [{'binds': {}, 'idx': {}, 'region': list(self.dom), 'first': {}}]
            for blk, g in gs:
                new = []
                for st in states:
                    new += self.step(st, blk, g)
                states = [s for s in new if s['region']]
                if not states:
                    break
            for st in states:
                val = None
                if kind == 'return':
                    raw = S.resolve_phi(S.path_return(self.body, path), path)      # a value joined from several blocks: the one defined on this path
                    for st2 in self.bind_all(raw, st):
                        if not st2['region']:
                            continue
                        for reg, v in self.split_value(self.rewrite(raw, st2), st2):
                            if reg:
                                st3 = self.fork(st2); st3['region'] = reg
                                outcomes.append((reg, kind, v, st3, path))
                else:
                    outcomes.append((st['region'], kind, None, st, path))
        return outcomes

    def bind_all(self, t, st):
        """specialise st until t mentions no unbound draw"""
        out = []
        work = [st]
        while work:
            s = work.pop()
            d = self.unbound_draw(t, s)
            if d is None:
                out.append(s)
            else:
                work += [x for x in self.specialise(s, d, want=None) if x['region']]
        return out

    def specialise(self, st, draw, want):
        """bind the draw at `site`.  want: 'Some' | 'None' | None (both, value-level)"""
        site, direction, local, src = draw
        if isinstance(direction, tuple) and direction[0] == 'find':
            return self.specialise_find(st, draw, want)
        es = self.entries(src, direction)
        k = len(es)
        out = []
        self.one_direction(st, local, direction)
        consumed = st['idx'].get(local)
        if consumed is None and self.is_scan_header(site):
            # first-match scan: entry i is drawn last for the inputs that entries 0..i-1 did not accept
            taken = []          # kept sorted and normalised; entries of a well-formed table are disjoint, so the
            import bisect       # subtraction below is the exception, found by an O(log k) overlap test
            for i, (lo, hi, off) in enumerate(es):
                reg = ivl.clip(st['region'], lo, hi)
                if taken and ivl.clip(taken, lo, hi):
                    reg = ivl.diff(reg, taken, self.tlo, self.thi)
                    taken = ivl.union(taken, [(lo, hi)])
                else:
                    bisect.insort(taken, (lo, hi))
                if want in (None, 'Some') and reg:
                    s = self.fork(st); s['binds'][site] = SOME(self.entry_term(src, lo, hi, off)); s['idx'][local] = i + 1; s['region'] = reg
                    out.append(s)
            rest = ivl.diff(st['region'], taken, self.tlo, self.thi)
            if want in (None, 'None') and rest:
                s = self.fork(st); s['binds'][site] = NONE; s['idx'][local] = k; s['region'] = rest
                out.append(s)
            return out
        if consumed is None:
            # a plain first draw outside a scan loop: the first entry (or None for an empty table)
            consumed = 0
        if consumed < k:
            if want in (None, 'Some'):
                lo, hi, off = es[consumed]
                s = self.fork(st); s['binds'][site] = SOME(self.entry_term(src, lo, hi, off)); s['idx'][local] = consumed + 1
                out.append(s)
        else:
            if want in (None, 'None'):
                s = self.fork(st); s['binds'][site] = NONE; s['idx'][local] = consumed
                out.append(s)
        return out

    def specialise_find(self, st, draw, want):
        """find(it, pred): the first entry (in iteration order, from the iterator's current position) whose predicate holds"""
        site, (_, clo, fdir), local, src = draw
        es = self.entries(src, fdir)        # rfind: the entries in reverse order, position counted from the back
        self.one_direction(st, local, fdir)
        start = st['idx'].get(local) or 0
        out = []
        taken = []
        for i in range(start, len(es)):
            lo, hi, off = es[i]
            ent = self.entry_term(src, lo, hi, off)
            cond = self.apply_closure(clo, ('ref', ent, None, None), st)
            hit = self.cond_region(cond, True, st)
            reg = ivl.diff(ivl.intersect(st['region'], hit), taken, self.tlo, self.thi)
            taken = ivl.union(taken, hit)
            if reg and want in (None, 'Some'):
                s = self.fork(st); s['binds'][site] = SOME(ent); s['idx'][local] = i + 1; s['region'] = reg
                out.append(s)
        rest = ivl.diff(st['region'], taken, self.tlo, self.thi)
        if rest and want in (None, 'None'):
            s = self.fork(st); s['binds'][site] = NONE; s['idx'][local] = len(es); s['region'] = rest
            out.append(s)
        return out

    def one_direction(self, st, local, direction):
        """the position of an iterator is kept as the number of entries consumed from one end; an iterator that is drawn from both
        ends (find then next_back, rfind then next) is outside what that models"""
        if local is None:
            return
        d = st.setdefault('dir', {})
        if d.setdefault(local, direction) != direction:
            raise Unrecognised('the run-table iterator is drawn from both ends (%s after %s)' % (direction, d[local]))

    def split_value(self, v, st):
        """value-level conditionals of the returned term -> [(region, value)]:
        `cond.then(|| x)` is Some(x) where cond holds and None elsewhere (the closure runs only there: `bool::then` is lazy);
        `opt.ok_or(())` maps Some(x) to Ok(x) and None to Err(())"""
        v = self.V.strip(v)
        if v[0] == 'call' and v[1] == 'core::option::Option::ok_or' and len(v[2]) == 2 and self.V.strip(v[2][1]) in (('agg', 'tuple', ()), ('unit',)):
            out = []
            for reg, x in self.split_value(v[2][0], st):
                if S.is_some(x, 'Some'):
                    out.append((reg, ('agg', 'adt|core::result::Result|Ok', x[2])))
                elif S.is_none(x):
                    out.append((reg, ('agg', 'adt|core::result::Result|Err', (('agg', 'tuple', ()),))))
                else:
                    out.append((reg, ('call', v[1], (x, v[2][1]), v[3], v[4])))
            return out
        if v[0] == 'call' and v[1] == 'bool::then' and len(v[2]) == 2:
            cond, clo = self.V.strip(v[2][0]), self.V.strip(v[2][1])
            if clo[0] == 'agg' and str(clo[1]).startswith('closure|'):
                yes = ivl.intersect(st['region'], self.cond_region(cond, True, st))
                no = ivl.diff(st['region'], yes, self.tlo, self.thi)
                out = []
                if yes:
                    sy = self.fork(st); sy['region'] = yes
                    out.append((yes, ('agg', 'adt|core::option::Option|Some', (self.apply_closure(clo, None, sy),))))
                if no:
                    out.append((no, ('agg', 'adt|core::option::Option|None', ())))
                return out
        return [(st['region'], v)]

    def fork(self, st):
        return {'binds': dict(st['binds']), 'idx': dict(st['idx']), 'region': list(st['region']), 'first': st['first'], 'dir': dict(st.get('dir', {}))}

    def step(self, st, blk, g):
        """apply one edge guard to a state -> list of states"""
        if g[0] == 'assert':
            cond = g[1]
            outs = []
            for s in self.bind_all(cond, st):
                c = self.rewrite(cond, s)
                if c[0] == 'ovf':
                    p2 = []
                    self.affine(('bin', c[1] + '_checked', c[2], c[3]), p2, region=s['region'])
                    ov = ivl.norm([iv for _, rg in p2 for iv in rg])
                    bad = ivl.intersect(s['region'], ov) if g[2] is False else ivl.diff(s['region'], ov, self.tlo, self.thi)
                    if bad:
                        self.panics.append((bad, 'arithmetic overflow in %s' % show(c)))
                    s['region'] = ivl.diff(s['region'], bad, self.tlo, self.thi)
                    outs.append(s)
                elif c[0] == 'bin' and c[1] == 'Lt':
                    # bounds check  index < len
                    ok = self.cond_region(c, g[2], s)
                    bad = ivl.diff(s['region'], ok, self.tlo, self.thi)
                    if bad:
                        self.panics.append((bad, 'index out of bounds: %s' % show(c)))
                    s['region'] = ivl.intersect(s['region'], ok)
                    outs.append(s)
                else:
                    raise Unrecognised('assert on %s' % show(c))
            return outs
        if g[0] != 'sw':
            raise Unrecognised('edge condition %r' % (g[0],))
        is_draw = g[1][0] == 'discr' and g[1][1][0] == 'call' and g[1][1][1] in (S.IT_NEXT, S.IT_NEXT_BACK, S.IT_FIND, S.IT_RFIND) and g[1][1][4] is not None
        if is_draw:
            inner = g[1][1]
            arm = S.option_arm(g)
            if arm is None:
                return []       # otherwise-arm of an exhaustive match on Option: no such value
            site = inner[4]
            if site in st['binds']:
                b = st['binds'][site]
                return [st] if b[1].endswith('|' + arm) else []
            d = self.unbound_draw(inner, st)
            return self.specialise(st, d, arm)
        boolish = g[1][0] in ('bool',) or (g[1][0] == 'bin' and g[1][1] in MIRROR) or (g[1][0] == 'un' and g[1][1] == 'Not') or (g[1][0] == 'call' and g[1][1] in (S.CONTAINS, S.STR_EQ))
        tv = S.sw_true(g) if boolish else None
        if tv is None:
            # multi-way switch on an integer expression of the input
            outs = []
            for s in self.bind_all(g[1], st):
                c = self.rewrite(g[1], s)
                if mentions(c, self.var):
                    f = self.affine(c, region=s['region'])
                    hit = []
                    for v in g[2][1]:
                        hit = ivl.union(hit, f.cmp_region('Eq', v))
                else:
                    cv = self.V.F.try_fold(c)
                    if cv is None or cv[0] != 'int':
                        raise Unrecognised('multi-way switch on %s' % show(c))
                    hit = list(self.dom) if cv[2] in g[2][1] else []
                reg = hit if g[2][0] == 'in' else ivl.diff(self.dom, hit, self.tlo, self.thi)
                s['region'] = ivl.intersect(s['region'], reg)
                outs.append(s)
            return outs
        outs = []
        for s in self.bind_all(g[1], st):
            c = self.rewrite(g[1], s)
            s['region'] = ivl.intersect(s['region'], self.cond_region(c, tv, s))
            outs.append(s)
        return outs


def subst_args(t, m):
    if not isinstance(t, tuple) or not t:
        return t
    if t[0] == 'arg' and t[1] in m:
        return m[t[1]]
    if t[0] in ('int', 'bool', 'str', 'named', 'promoted', 'fn', 'unit'):
        return t
    return tuple(subst_args(x, m) if isinstance(x, tuple) else x for x in t)
