"""from_str / FromStr (C04).  The argument string is touched only by `<str as PartialEq>::eq(s, constant)`.
match mode: an ordered chain of equality tests; table modes: a first-match scan of the name table.
In both cases the function is determined by the ordered list [(string_i, result_i)]; it is read off the CFG and
compared with the specification: result of s = the variant with the smallest discriminant whose name is s, None otherwise."""
from . import shapes as S, tables
from .pa import PA, eval_affine, NotAffine, TooManyPieces
from .mir import show, UNKNOWN
from .items import GEN_FILE, shape
from .scan import subst_args

def str_eq(V, t):
    """t = <str|&str as PartialEq>::eq(a, b) -> (a, b) peeled, else None"""
    t = V.strip(t)
    if t[0] != 'call' or t[1] != S.STR_EQ or t[3] is None:
        return None
    c = V.inst.crate.C(t[3])
    a0 = V.inst.crate.T(c['args'][0]) if c['args'] else None
    ok = a0 is not None and (a0['k'] == 'str' or (a0['k'] == 'ref' and V.inst.crate.T(a0['to'])['k'] == 'str'))
    if not ok:
        return None
    return peel(V, t[2][0]), peel(V, t[2][1])

def peel(V, t):
    while True:
        t = V.strip(t)
        if t[0] in ('ref', 'deref'):
            t = t[1]; continue
        return t

def spec_map(inst):
    """name -> variant (ident, value) with the smallest discriminant"""
    m = {}
    for v, n in zip(inst.S, inst.names):
        m.setdefault(n.encode('utf8'), v)
    return m

def variant_of(inst, t, okv):
    """t = Some/Ok(Variant{}) -> ident"""
    if S.is_some(t, okv):
        p = S.payload(t)
        if p[0] == 'agg' and p[1].startswith('adt|' + inst.enum_path + '|') and not p[2]:
            return p[1].split('|')[-1]
    return None

def is_fail(t, okv):
    return S.is_none(t) if okv == 'Some' else S.is_err_unit(t)

def check_from_str(inst, V, ctx, body, feature, okv):
    con = '%s [%s]' % (GEN_FILE[feature], shape(inst))
    item = feature
    def bad(rule, what, kind='refuted', cls=''):
        ctx.violation(rule, inst, item, what, key='%s/%s/%s/%s%s' % (ctx.prop, rule, feature, shape(inst), cls), construct=con, kind=kind)
    spec = spec_map(inst)
    arg = ('arg', 0)
    paths = S.simple_paths(body)
    loops = body.loops()
    if not loops:
        r = adaptor_form(inst, V, ctx, body, paths, okv, bad, spec)
        if r is not None:
            return True if r else None
        # ---- match mode: ordered equality chain
        order = []      # [(const bytes, result ident)] in test order
        fail_seen = False
        for path, kind, nxt in paths:
            if kind == 'unreachable':
                continue
            if kind != 'return':
                bad('shape', 'a path ends in a %s' % kind, 'unrecognised'); return None
            gs = S.path_guards(body, path)
            trues = []
            for blk, g in gs:
                tv = S.sw_true(g) if g[0] == 'sw' else None
                e = str_eq(V, g[1]) if g[0] == 'sw' else None
                if e is None or tv is None:
                    bad('shape', 'branch on %s: the argument may only be compared for equality with constants' % show(g[1]), 'unrecognised'); return None
                a, b = e
                if a == arg and b[0] == 'str':
                    c = b[1]
                elif b == arg and a[0] == 'str':
                    c = a[1]
                else:
                    bad('shape', 'string comparison %s is not between the argument and a constant' % show(g[1]), 'unrecognised'); return None
                if tv:
                    trues.append(c)
            val = S.resolve_phi(S.path_return(body, path), path)       # `Some(match s { "A" => Self::A, .. })`: the payload is chosen on the path
            if len(trues) == 1:
                v = variant_of(inst, val, okv)
                if v is None:
                    bad('shape', 'on a successful comparison the function returns %s' % show(val), 'unrecognised'); return None
                order.append((len(gs), trues[0], v))
            elif not trues:
                if not is_fail(val, okv):
                    # positive evidence only for a decided value (Some(..) / Ok(..) of something); a call the rules cannot read is not a refutation
                    bad('reject', 'a string equal to no tested constant yields %s, required %s' % (show(val), 'None' if okv == 'Some' else 'Err(())'),
                        'refuted' if val[0] == 'agg' else 'unrecognised'); return None
                fail_seen = True
            else:
                bad('shape', 'a path requires the argument to equal two constants', 'unrecognised'); return None
        order.sort()
        got = {}
        for _, c, v in order:
            got.setdefault(c, v)
        return compare(inst, ctx, got, spec, bad, fail_seen)
    # ---- table modes: first-match scan
    if len(loops) != 1:
        bad('shape', '%d loops' % len(loops), 'unrecognised'); return None
    (hdr, lblocks), = loops.items()
    draw = None
    found_val = None
    fail_seen = False
    for path, kind, nxt in paths:
        gs = S.path_guards(body, path if kind != 'continue' else path + [nxt])
        conds = []
        for blk, g in gs:
            if g[0] != 'sw':
                bad('shape', 'assert in from_str', 'unrecognised'); return None
            if g[1][0] == 'discr':
                nc = V.next_call(g[1][1])
                arm = S.option_arm(g)
                if nc is None:
                    bad('shape', 'switch on %s' % show(g[1]), 'unrecognised'); return None
                if arm is None:
                    conds.append(('impossible',)); continue
                if draw is None:
                    draw = nc
                elif draw[3] != nc[3]:
                    bad('shape', 'more than one draw from the table per iteration', 'unrecognised'); return None
                if nc[0] != 'fwd':
                    bad('order', 'the name table is scanned backwards: with duplicate names the variant with the largest discriminant would be returned'); return None
                conds.append(('draw', arm)); continue
            e = str_eq(V, g[1])
            tv = S.sw_true(g)
            if e is None or tv is None:
                bad('shape', 'branch on %s: the argument may only be compared for equality with table entries' % show(g[1]), 'unrecognised'); return None
            conds.append(('eq', e, tv))
        if ('impossible',) in conds:
            continue
        eqs = [c for c in conds if c[0] == 'eq']
        draws = [c for c in conds if c[0] == 'draw']
        if kind == 'continue':
            if not (draws == [('draw', 'Some')] and len(eqs) == 1 and eqs[0][2] is False):
                bad('shape', 'the scan continues under a condition other than "entry differs from the argument"', 'unrecognised'); return None
            cont_eq = eqs[0][1]
        elif kind == 'return':
            val = S.path_return(body, path)
            if draws == [('draw', 'None')] and not eqs:
                if not is_fail(val, okv):
                    bad('reject', 'after the whole table was scanned without a match the function returns %s' % show(val), 'refuted' if val[0] == 'agg' else 'unrecognised'); return None
                fail_seen = True
            elif draws == [('draw', 'Some')] and len(eqs) == 1 and eqs[0][2] is True:
                found_val = (val, eqs[0][1])
            else:
                bad('shape', 'unexpected exit from the scan', 'unrecognised'); return None
        else:
            bad('shape', 'a path ends in a %s' % kind, 'unrecognised'); return None
    if draw is None or found_val is None:
        bad('shape', 'no first-match scan found', 'unrecognised'); return None
    src = draw[2]
    NAME_I, VAR_I = 1, 0
    # element shape: enumerate(iter(&T2)) -> (index, &&str) ; zip(iter(&T3), iter(&T2)) -> (&E, &&str)
    if src[0] == 'enumerate' and src[1][0] == 'tab' and src[1][1][0] == 'T2':
        mode, t2 = 'enum', src[1][1][1]
    elif src[0] == 'zip' and src[1][0] == 'tab' and src[2][0] == 'tab' and src[1][1][0] == 'T3' and src[2][1][0] == 'T2':
        mode, t2, t3 = 'zip', src[2][1][1], src[1][1][1]
    elif src[0] == 'zip' and src[1][0] == 'tab' and src[2][0] == 'tab' and src[1][1][0] == 'T2' and src[2][1][0] == 'T3':
        mode, t2, t3 = 'zip', src[1][1][1], src[2][1][1]        # zip(names, variants): the components of the element change places
        NAME_I, VAR_I = 0, 1
    else:
        bad('shape', 'the scan is not over enumerate(name table) or zip(variant table, name table): %r' % (src,), 'unrecognised'); return None
    val, (ea, eb) = found_val
    # the tested string must be the name component of the drawn element, compared with the argument
    def is_name_component(t):
        return t[0] == 'field' and t[2] == (NAME_I if mode == 'zip' else 1) and V.elem(t[1]) is not None
    if not ((ea == arg and is_name_component(eb)) or (eb == arg and is_name_component(ea))):
        bad('shape', 'the scan compares %s with %s' % (show(ea), show(eb)), 'unrecognised'); return None
    names_tab = V.F.try_fold(('named', t2))
    if names_tab is None or names_tab[0] != 'array':
        bad('shape', 'name table does not fold', 'unrecognised'); return None
    tnames = [x[1] for x in names_tab[1]]
    N = len(tnames)
    if not S.is_some(val, okv):
        bad('shape', 'on a match the function returns %s' % show(val), 'unrecognised'); return None
    p = S.payload(val)
    results = [None] * N      # variant value returned for a match at table index j
    by_value = {v['value']: v['ident'] for v in inst.S}
    if mode == 'enum':
        if p[0] != 'transmute' or p[1] != inst.enum_path:
            bad('shape', 'on a match the function returns %s' % show(val), 'unrecognised'); return None
        # index component of the element
        idx_terms = [t for t in walk(p[2]) if t[0] == 'field' and t[2] == 0 and V.elem(t[1]) is not None]
        if not idx_terms:
            bad('shape', 'the result %s does not depend on the index of the match' % show(p[2]), 'unrecognised'); return None
        var = idx_terms[0]
        try:
            f = eval_affine(p[2], var, PA.ident([(0, N - 1)], 'usize'), V.F, inst.crate.pointer_bits, None)
        except (NotAffine, TooManyPieces) as e:
            bad('shape', 'index to discriminant conversion is not a supported integer expression (%s): %s' % (e, show(p[2])), 'unrecognised'); return None
        for j in range(N):
            results[j] = f.at(j)
    else:
        q = peel(V, p)
        if not (q[0] == 'field' and q[2] == VAR_I and V.elem(q[1]) is not None):
            bad('shape', 'on a match the function returns %s' % show(val), 'unrecognised'); return None
        vt = V.F.try_fold(('named', t3))
        if vt is None or vt[0] != 'array' or len(vt[1]) != N:
            bad('zip', 'variant table and name table have different lengths or do not fold'); return None
        ident_value = {v['ident']: v['value'] for v in inst.S}
        for j in range(N):
            results[j] = ident_value.get(vt[1][j][2])
    return finish_table(inst, ctx, tnames, results, spec, bad, fail_seen)

def finish_table(inst, ctx, tnames, results, spec, bad, fail_seen):
    """a first-match search of the name table that returns results[j] for a match at index j"""
    by_value = {v['value']: v['ident'] for v in inst.S}
    got = {}
    for j in range(len(tnames)):
        if tnames[j] in got:
            continue
        r = results[j]
        if r not in by_value:
            bad('index', 'a match at name-table index %d (%r) yields transmute(%r), which is not a declared discriminant' % (j, tnames[j].decode('utf8', 'replace'), r), cls='/invalid'); return None
        got[tnames[j]] = by_value[r]
    return compare(inst, ctx, got, spec, bad, fail_seen)

IT_POSITION = 'core::iter::traits::iterator::Iterator::position'

def adaptor_form(inst, V, ctx, body, paths, okv, bad, spec):
    """`match Iterator::position(&mut NAMES.iter(), |n| s == *n) { Some(i) => Some(transmute(i + MIN)), None => None }` and
    `match Iterator::find(&mut ENUMS.iter().zip(NAMES.iter()), |(_, n)| s == **n) { Some((e, _)) => Some(*e), None => None }`:
    both adaptors return the first element, in table order, whose predicate holds - the same first-match search as the loop form.
    Returns None when the body is not of this form (the caller goes on with its other readings), else the verdict."""
    arg = ('arg', 0)
    call = None
    arms = {}
    for path, kind, nxt in paths:
        gs = S.path_guards(body, path)
        if len(gs) != 1 or gs[0][1][0] != 'sw' or gs[0][1][1][0] != 'discr':
            return None
        c = V.strip(gs[0][1][1][1])
        if c[0] != 'call' or c[1] not in (IT_POSITION, S.IT_FIND) or c[4] is None:
            return None
        if call is None:
            call = c
        elif call != c:
            return None
        arm = S.option_arm(gs[0][1])
        if arm is None:
            if kind == 'unreachable':
                continue
            return None
        if kind != 'return' or arm in arms:
            return None
        arms[arm] = S.resolve_phi(S.path_return(body, path), path)
    if call is None or set(arms) != {'Some', 'None'}:
        return None
    src = V.iter_source(call[2][0])
    clo = V.strip(call[2][1])
    if clo[0] != 'agg' or not clo[1].startswith('closure|') or len(clo[2]) != 1 or peel(V, clo[2][0]) != arg:
        bad('shape', 'the predicate of %s captures something other than the argument string' % call[1].split('::')[-1], 'unrecognised'); return False
    cp = clo[1].split('|', 1)[1]
    cb = V.I.body(cp) if hasattr(V.I, 'body') else None
    alts = cb.ret_alternatives() if cb is not None else []
    if len(alts) != 1 or cb.loops():
        bad('shape', 'the predicate of the search is not a single comparison', 'unrecognised'); return False
    e = str_eq(V, alts[0][1])
    if e is None:
        bad('shape', 'the predicate of the search is %s, required a string equality' % show(alts[0][1]), 'unrecognised'); return False
    env_s = ('field', ('deref', ('arg', 0)), 0)
    def is_env(t):
        return t == env_s or (t[0] == 'field' and t[2] == 0 and peel(V, t[1]) == ('arg', 0))
    if call[1] == IT_POSITION:
        if not (src and src[0] == 'tab' and src[1][0] == 'T2' and src[2] == 'slice'):
            bad('shape', 'position() is not taken over the name table: %r' % (src,), 'unrecognised'); return False
        t2 = src[1][1]
        elem_ok = lambda t: t == ('arg', 1)
    else:
        if not (src and src[0] == 'zip' and src[1][0] == 'tab' and src[2][0] == 'tab' and src[1][1][0] == 'T3' and src[2][1][0] == 'T2'):
            bad('shape', 'find() is not taken over zip(variant table, name table): %r' % (src,), 'unrecognised'); return False
        t2, t3 = src[2][1][1], src[1][1][1]
        elem_ok = lambda t: t[0] == 'field' and t[2] == 1 and peel(V, t[1]) == ('arg', 1)
    a, b = e
    if not ((is_env(a) and elem_ok(b)) or (is_env(b) and elem_ok(a))):
        bad('shape', 'the predicate compares %s with %s, required the argument with the name of the element' % (show(a), show(b)), 'unrecognised'); return False
    if not is_fail(arms['None'], okv):
        bad('reject', 'when no name matches the function returns %s' % show(arms['None']), 'refuted' if arms['None'][0] == 'agg' else 'unrecognised'); return False
    names_tab = V.F.try_fold(('named', t2))
    if names_tab is None or names_tab[0] != 'array':
        bad('shape', 'name table does not fold', 'unrecognised'); return False
    tnames = [x[1] for x in names_tab[1]]
    N = len(tnames)
    val = arms['Some']
    if not S.is_some(val, okv):
        bad('shape', 'on a match the function returns %s' % show(val), 'unrecognised'); return False
    p = S.payload(val)
    hit = ('field', ('downcast', call, 'Some'), 0)
    results = [None] * N
    if call[1] == IT_POSITION:
        if p[0] != 'transmute' or p[1] != inst.enum_path:
            bad('shape', 'on a match the function returns %s' % show(val), 'unrecognised'); return False
        try:
            f = eval_affine(p[2], hit, PA.ident([(0, N - 1)], 'usize'), V.F, inst.crate.pointer_bits, None)
        except (NotAffine, TooManyPieces) as ex:
            bad('shape', 'index to discriminant conversion is not a supported integer expression (%s): %s' % (ex, show(p[2])), 'unrecognised'); return False
        for j in range(N):
            results[j] = f.at(j)
    else:
        q = peel(V, p)
        if not (q[0] == 'field' and q[2] == 0 and peel(V, q[1]) == hit):
            bad('shape', 'on a match the function returns %s' % show(val), 'unrecognised'); return False
        vt = V.F.try_fold(('named', t3))
        if vt is None or vt[0] != 'array' or len(vt[1]) != N:
            bad('zip', 'variant table and name table have different lengths or do not fold'); return False
        ident_value = {v['ident']: v['value'] for v in inst.S}
        for j in range(N):
            results[j] = ident_value.get(vt[1][j][2])
    return bool(finish_table(inst, ctx, tnames, results, spec, bad, True))

def compare(inst, ctx, got, spec, bad, fail_seen):
    if not fail_seen:
        bad('reject', 'no path returns the failure value: strings that are not a name would be accepted'); return None
    for n, v in spec.items():
        if n not in got:
            bad('accept', 'the name %r is not accepted' % n.decode('utf8', 'replace')); return None
        if got[n] != v['ident']:
            same = [x['ident'] for x, nm in zip(inst.S, inst.names) if nm.encode('utf8') == n]
            bad('accept', 'parsing %r yields variant %s, required %s (%s)' % (n.decode('utf8', 'replace'), got[n], v['ident'],
                'the variant whose name it is' if got[n] not in same else 'of the variants sharing this name, the one with the smallest discriminant, as in every other mode')); return None
    for n in got:
        if n not in spec:
            bad('accept', 'the string %r is accepted (as %s) but is no variant\'s name' % (n.decode('utf8', 'replace'), got[n])); return None
    ctx.ok('from_str-map', inst)
    return True

def walk(t):
    if isinstance(t, tuple) and t:
        yield t
        for x in t:
            if isinstance(x, tuple):
                for y in walk(x):
                    yield y
