"""next / next_back: the derived function must be the successor / predecessor in discriminant order (C05),
which also discharges its transmutes and unchecked unwraps (C02)."""
from . import ivl, shapes as S
from .pa import PA
from .scan import Scanner, Unrecognised, mentions
from .mir import show
from .items import GEN_FILE, shape

def spec_step(inst, direction):
    """(PA of the successor/predecessor on the declared values that have one, the value that has none)"""
    runs = inst.runs
    pieces = []
    if direction == 'fwd':
        for i, (lo, hi) in enumerate(runs):
            if hi > lo:
                pieces.append((lo, hi - 1, 1))
            if i + 1 < len(runs):
                pieces.append((hi, hi, runs[i + 1][0] - hi))
        return PA(pieces, inst.repr), runs[-1][1]
    for i, (lo, hi) in enumerate(runs):
        if hi > lo:
            pieces.append((lo + 1, hi, -1))
        if i > 0:
            pieces.append((lo, lo, runs[i - 1][1] - lo))
    return PA(pieces, inst.repr), runs[0][0]

def check_step(inst, V, ctx, body, direction, item, feature):
    """returns list of discharged obligation sites or None on violation"""
    var = ('discr', ('arg', 0))
    dom = ivl.norm(inst.runs)
    word = 'next' if direction == 'fwd' else 'next_back'
    con = '%s [%s]' % (GEN_FILE[feature], shape(inst))
    def bad(rule, what, kind='refuted'):
        ctx.violation(rule, inst, item, what, key='%s/%s/%s/%s' % (ctx.prop, rule, feature, shape(inst)), construct=con, kind=kind)
    try:
        sc = Scanner(V, body, var, dom)
        res = sc.run()
    except Unrecognised as e:
        bad('shape', 'the body is not a step function the rule set understands: %s' % e, 'unrecognised'); return None
    for region, what in sc.ub:
        bad('unchecked', 'for discriminants %s: %s' % (ivl.show(region), what), 'undischarged'); return None
    for region, what in sc.panics:
        bad('panic-edge', 'for discriminants %s: %s' % (ivl.show(region), what), 'undischarged'); return None
    spec, last = spec_step(inst, direction)
    spec_dom = spec.domain()
    none_region, some_region = [], []
    for region, kind, val, st, path in res:
        if kind != 'return':
            bad('panic-edge', 'for discriminants %s control reaches a %s' % (ivl.show(region), 'panic' if kind == 'diverge' else 'block marked unreachable'), 'undischarged'); return None
        if S.is_none(val):
            none_region = ivl.union(none_region, region); continue
        if not S.is_some(val):
            bad('shape', 'for discriminants %s the function returns %s' % (ivl.show(region), show(val)), 'unrecognised'); return None
        p = S.payload(val)
        if p[0] == 'agg' and p[1].startswith('adt|' + inst.enum_path + '|') and not p[2]:
            # accepted equivalent: a constant variant (safe `match` form) - it must be the specification's step for every input of the region
            dv = inst.by_ident.get(p[1].split('|')[-1], {}).get('value')
            wrong = [x for a, b in region for x in (a, b) if spec.at(x) != dv]
            if wrong or any(a != b for a, b in region):
                bad('step', '%s of the variant with discriminant %d returns the variant %s (%s), required %s' % (word, (wrong or [region[0][0]])[0], p[1].split('|')[-1], dv, spec.at((wrong or [region[0][0]])[0]))); return None
            some_region = ivl.union(some_region, region)
            continue
        if p[0] != 'transmute' or p[1] != inst.enum_path:
            bad('shape', 'for discriminants %s the function returns %s' % (ivl.show(region), show(val)), 'unrecognised'); return None
        t = p[2]
        if mentions(t, var):
            try:
                f = sc.affine(t, region=region)
            except Unrecognised as e:
                bad('shape', str(e), 'unrecognised'); return None
            x = None
            for a, b, off in f.pieces:
                for c, d in [(a, b)]:
                    # compare with the specification piece by piece
                    pass
            nodom = ivl.diff(region, ivl.intersect(region, spec_dom), sc.tlo, sc.thi) if region else []
            if nodom:
                x = nodom[0][0]
                bad('step', '%s of the variant with discriminant %d returns Some(transmute(%d)) but that variant has no %s (it is %s)' % (word, x, f.at(x), 'successor' if direction == 'fwd' else 'predecessor', 'MAX' if direction == 'fwd' else 'MIN')); return None
            x = f.equal_on(spec, region)
            if x is not None:
                got = f.at(x)
                bad('step', '%s of the variant with discriminant %d returns the value %d (%s), required %d' % (word, x, got, 'not a declared discriminant: invalid enum value' if not ivl.contains(dom, got) else 'a declared variant, but not the %s one' % ('next' if direction == 'fwd' else 'previous'), spec.at(x))); return None
        else:
            c = V.F.try_fold(t)
            if c is None or c[0] != 'int':
                bad('shape', 'payload %s' % show(t), 'unrecognised'); return None
            for a, b in region:
                for x in (a, b):
                    want = spec.at(x)
                    if want != c[2] or a != b:
                        bad('step', '%s of the variant with discriminant %d returns the value %d (%s), required %s' % (word, x, c[2], 'not a declared discriminant: invalid enum value' if not ivl.contains(dom, c[2]) else 'a declared variant', want)); return None
        some_region = ivl.union(some_region, region)
    if none_region != [(last, last)]:
        fd = ivl.first_diff(none_region, [(last, last)])
        bad('step', '%s returns None for discriminants %s, required: exactly for %d (the %s)' % (word, ivl.show(none_region), last, 'maximum' if direction == 'fwd' else 'minimum')); return None
    if ivl.union(none_region, some_region) != dom:
        ctx.error('step regions do not cover the declared set in %s %s' % (inst.id, item)); return None
    ctx.ok('step', inst)
    return True
