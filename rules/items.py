"""Locating derived items of an instance and shared item-level helpers."""
from .mir import Body, show, callee_key

class Items:
    """lazy Body construction for one instance"""
    def __init__(self, inst):
        self.inst = inst
        self._b = {}

    def body(self, path, promoted=None):
        key = (path, promoted)
        if key not in self._b:
            b = self.inst.crate.bodies.get(path)
            if b is None:
                self._b[key] = None
            elif promoted is None:
                self._b[key] = Body(self.inst.crate, path, b['mir'])
            else:
                self._b[key] = Body(self.inst.crate, '%s[promoted %d]' % (path, promoted), b['promoted'][promoted], owner=path)
        return self._b[key]

    def assoc_fn(self, feature):
        """the inherent function requested for `feature` (under its requested name) -> item or None"""
        nm = self.inst.feature_name(feature)
        if nm is None:
            return None
        it = self.inst.assoc.get(nm)
        if it is None or it['kind'] != 'AssocFn':
            return None
        return it

    def require_fn(self, ctx, feature):
        """like assoc_fn, but a feature that is requested and has no item is a violation (a silently dropped feature)"""
        if feature not in self.inst.feats:
            return None
        it = self.assoc_fn(feature)
        if it is None:
            ctx.violation('exists', self.inst, feature, 'feature `%s` is requested but the derive impl has no function `%s`' % (feature, self.inst.feature_name(feature)),
                          key='%s/exists/%s' % (ctx.prop, feature), construct=GEN_FILE.get(feature))
        return it

    def trait_fn(self, trait_suffix, fn_name, self_pred=None):
        """(impl, item path) of method fn_name in the impl of a trait whose canonical path ends with trait_suffix"""
        out = []
        for im in self.inst.impls:
            if not im.get('trait', '').endswith(trait_suffix) or not im['from_expansion']:
                continue
            if self_pred and not self_pred(self.inst.crate.T(im['self_ty']), im):
                continue
            for it in im['items']:
                if it['name'] == fn_name:
                    out.append((im, it['path']))
        return out

GEN_FILE = {
    'as_str': 'src/feature/as_str_fn.rs::generate', 'from_str': 'src/feature/from_str_fn.rs::generate',
    'FromStr': 'src/feature/from_str_trait.rs::generate', 'into': 'src/feature/into_fn.rs::generate',
    'Into': 'src/feature/into_trait.rs::generate', 'try_from': 'src/feature/try_from_fn.rs::generate',
    'TryFrom': 'src/feature/try_from_trait.rs::generate', 'next': 'src/feature/next_fn.rs::generate',
    'next_back': 'src/feature/next_back_fn.rs::generate', 'range': 'src/feature/range_fn.rs::generate',
    'iter': 'src/feature/iter/{mod,range,next_and_back,table,table_inline}.rs', 'names': 'src/feature/names.rs::generate',
    'Debug': 'src/feature/debug_trait.rs::generate', 'Display': 'src/feature/display_trait.rs::generate',
    'IntoStr': 'src/feature/into_str_trait.rs::generate', 'MIN': 'src/feature/min_const.rs::generate', 'MAX': 'src/feature/max_const.rs::generate',
}

def shape(inst):
    return 'gapless' if inst.gapless else 'holes'
