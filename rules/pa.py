"""Piecewise-affine integer functions of one input (DESIGN.md 4.2 'interval evaluator', generalised).

The derived functions touch an integer input only through `x +/- const` (plain, checked or wrapping),
`as` casts between integer types and comparisons with constants.  Any such expression is a function
x -> x + off_i on finitely many intervals of x; comparing it with a constant, or with the required
function, is interval arithmetic - no solver, and no enumeration of values.
"""
from . import ivl
from .fold import ty_range, int_bits

MAX_PIECES = 4096

class TooManyPieces(Exception):
    pass

class PA:
    """f(x) = x + off on each piece (lo, hi, off); value type `ty`"""
    def __init__(self, pieces, ty):
        self.pieces = sorted(pieces)
        self.ty = ty

    @staticmethod
    def ident(domain, ty):
        return PA([(a, b, 0) for a, b in domain], ty)

    def domain(self):
        return ivl.norm([(a, b) for a, b, _ in self.pieces])

    def restrict(self, iv):
        """restriction to an interval set; O((|iv| + hits) log n) via bisection on the sorted, disjoint pieces"""
        import bisect
        his = getattr(self, '_his', None)
        if his is None:
            his = self._his = [p[1] for p in self.pieces]
        out = []
        n = len(self.pieces)
        for c, d in iv:
            k = bisect.bisect_left(his, c)
            while k < n and self.pieces[k][0] <= d:
                a, b, off = self.pieces[k]
                x, y = max(a, c), min(b, d)
                if x <= y:
                    out.append((x, y, off))
                k += 1
        return PA(out, self.ty)

    def wrap_to(self, ty, pb=64):
        """re-interpret the mathematical values in type ty (two's complement wrap)"""
        lo, hi = ty_range(ty, pb)
        m = 1 << int_bits(ty, pb)
        out = []
        for a, b, off in self.pieces:
            # values a+off .. b+off ; split where (v - lo) // m changes
            x = a
            n0 = len(out)
            while x <= b:
                v = x + off
                k = (v - lo) // m
                # largest x' with (x'+off - lo)//m == k
                xe = min(b, lo + (k + 1) * m - 1 - off)
                out.append((x, xe, off - k * m))
                x = xe + 1
                if len(out) - n0 > MAX_PIECES:
                    raise TooManyPieces()      # one affine piece wraps more than MAX_PIECES times: a truncating cast
        return PA(out, ty)

    def add_const(self, c, ty=None):
        """mathematical x + c (no wrap)"""
        return PA([(a, b, off + c) for a, b, off in self.pieces], ty or self.ty)

    def overflow_region(self, ty=None, pb=64):
        """inputs for which the mathematical value lies outside ty"""
        lo, hi = ty_range(ty or self.ty, pb)
        out = []
        for a, b, off in self.pieces:
            # x + off < lo  <=> x < lo - off ; x + off > hi <=> x > hi - off
            if a < lo - off:
                out.append((a, min(b, lo - off - 1)))
            if b > hi - off:
                out.append((max(a, hi - off + 1), b))
        return ivl.norm(out)

    def cmp_region(self, op, c):
        """{x : f(x) op c}"""
        out = []
        for a, b, off in self.pieces:
            t = c - off           # x op t
            if op == 'Lt': r = (a, min(b, t - 1))
            elif op == 'Le': r = (a, min(b, t))
            elif op == 'Gt': r = (max(a, t + 1), b)
            elif op == 'Ge': r = (max(a, t), b)
            elif op == 'Eq': r = (max(a, t), min(b, t))
            elif op == 'Ne':
                out.append((a, min(b, t - 1))); r = (max(a, t + 1), b)
            else:
                raise ValueError(op)
            out.append(r)
        return ivl.norm(out)

    def value_range(self):
        return ivl.norm([(a + off, b + off) for a, b, off in self.pieces])

    def equal_on(self, other, iv):
        """first x in iv where self(x) != other(x), or None.  other: PA"""
        a = self.restrict(iv).pieces
        b = other.restrict(iv).pieces
        da = ivl.norm([(p[0], p[1]) for p in a]); db = ivl.norm([(p[0], p[1]) for p in b])
        if da != ivl.norm(iv) or db != ivl.norm(iv):
            fd = ivl.first_diff(da, ivl.norm(iv)) or ivl.first_diff(db, ivl.norm(iv))
            return fd[0] if fd else None
        i = j = 0
        while i < len(a) and j < len(b):
            lo = max(a[i][0], b[j][0]); hi = min(a[i][1], b[j][1])
            if lo <= hi and a[i][2] != b[j][2]:
                return lo
            if a[i][1] < b[j][1]:
                i += 1
            else:
                j += 1
        return None

    def at(self, x):
        for a, b, off in self.pieces:
            if a <= x <= b:
                return x + off
        return None

    def __repr__(self):
        return 'PA<%s>[%s]' % (self.ty, ', '.join('%d..=%d:%+d' % p for p in self.pieces[:6]) + (' ...' if len(self.pieces) > 6 else ''))


class NotAffine(Exception):
    pass

def eval_affine(t, var, var_pa, F, pb=64, panics=None):
    """evaluate term t as a piecewise-affine function of the term `var` (whose PA is var_pa).
    Constant sub-terms are folded with F.  Checked arithmetic records its overflow region in `panics`
    (a list of (kind, region)).  Raises NotAffine when t is not of the supported grammar."""
    if t == var:
        return var_pa
    k = t[0]
    if k == 'cast':
        inner = eval_affine(t[3], var, var_pa, F, pb, panics)
        to = t[2]
        if to not in ('usize', 'isize') and to not in ('i8', 'u8', 'i16', 'u16', 'i32', 'u32', 'i64', 'u64', 'i128', 'u128'):
            raise NotAffine('cast to ' + str(to))
        return inner.wrap_to(to, pb)
    if k == 'call' and t[1] in ('int::wrapping_sub', 'int::wrapping_add'):
        a, b = t[2]
        if t[1].endswith('add') and F.try_fold(b) is None and F.try_fold(a) is not None:
            a, b = b, a
        cb = F.try_fold(b)
        if cb is None or cb[0] != 'int':
            raise NotAffine('non-constant right operand of ' + t[1])
        inner = eval_affine(a, var, var_pa, F, pb, panics)
        c = cb[2] if t[1].endswith('add') else -cb[2]
        return inner.add_const(c).wrap_to(inner.ty, pb)
    if k == 'bin' and t[1] in ('Add', 'Sub', 'Add_checked', 'Sub_checked'):
        a, b = t[2], t[3]
        if t[1].startswith('Add') and F.try_fold(b) is None and F.try_fold(a) is not None:
            a, b = b, a          # addition commutes
        cb = F.try_fold(b)
        if cb is None or cb[0] != 'int':
            raise NotAffine('non-constant right operand of ' + t[1])
        inner = eval_affine(a, var, var_pa, F, pb, panics)
        c = cb[2] if t[1].startswith('Add') else -cb[2]
        res = inner.add_const(c)
        ov = res.overflow_region(inner.ty, pb)
        if panics is not None and ov:
            panics.append((t[1], ov))
        # outside the overflow region the value is exact; inside, the function panics (debug) or wraps (release)
        return res.wrap_to(inner.ty, pb)
    raise NotAffine('term ' + str(k))
