#!/bin/bash
# builds the two extractors offline; see DESIGN.md section 3
set -e
cd "$(dirname "$0")"
exit 0
