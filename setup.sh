#!/bin/bash
# builds the extractors offline; see DESIGN.md section 3
set -e
cd "$(dirname "$0")"
export CARGO_NET_OFFLINE=true
(cd factdump && cargo build --release --offline 2>&1 | tail -3)
if [ -d tmplx ]; then (cd tmplx && cargo build --release --offline 2>&1 | tail -3); fi
test -x factdump/target/release/factdump
