// tmplx: E2 of /verif/DESIGN.md.  Parses every file of /repo/src with syn and emits facts about the generator:
// every quote! template (tokens, parsed paths, uses, bindings, macro calls), and per function the string
// literals passed to the attribute-parsing helpers, string match arms, assignments, pattern paths, loops.
use proc_macro2::{Delimiter, TokenStream, TokenTree};
use quote::ToTokens;
use std::fmt::Write as _;
use syn::visit::Visit;

fn esc(s: &str) -> String {
    let mut o = String::from("\"");
    for c in s.chars() {
        match c {
            '"' => o.push_str("\\\""),
            '\\' => o.push_str("\\\\"),
            '\n' => o.push_str("\\n"),
            '\r' => o.push_str("\\r"),
            '\t' => o.push_str("\\t"),
            c if (c as u32) < 0x20 => { let _ = write!(o, "\\u{:04x}", c as u32); }
            c => o.push(c),
        }
    }
    o.push('"');
    o
}

fn arr(v: &[String]) -> String {
    format!("[{}]", v.join(","))
}

fn sarr(v: &[String]) -> String {
    arr(&v.iter().map(|s| esc(s)).collect::<Vec<_>>())
}

/// token tree -> JSON, with interpolations made explicit
fn tokens_json(ts: TokenStream) -> String {
    let mut out = Vec::new();
    let toks: Vec<TokenTree> = ts.into_iter().collect();
    let mut i = 0;
    while i < toks.len() {
        match &toks[i] {
            TokenTree::Punct(p) if p.as_char() == '#' && i + 1 < toks.len() => {
                match &toks[i + 1] {
                    TokenTree::Ident(id) => {
                        out.push(format!("{{\"t\":\"interp\",\"s\":{}}}", esc(&id.to_string())));
                        i += 2;
                        continue;
                    }
                    TokenTree::Group(g) if g.delimiter() == Delimiter::Parenthesis => {
                        // #( ... ) sep? *
                        let inner = tokens_json(g.stream());
                        let mut j = i + 2;
                        let mut sep = String::new();
                        while j < toks.len() {
                            if let TokenTree::Punct(p2) = &toks[j] {
                                if p2.as_char() == '*' {
                                    break;
                                }
                                sep.push(p2.as_char());
                                j += 1;
                            } else {
                                break;
                            }
                        }
                        out.push(format!("{{\"t\":\"repeat\",\"sep\":{},\"c\":{}}}", esc(&sep), inner));
                        i = j + 1;
                        continue;
                    }
                    _ => {}
                }
                out.push("{\"t\":\"punct\",\"s\":\"#\"}".to_string());
            }
            TokenTree::Punct(p) => out.push(format!(
                "{{\"t\":\"punct\",\"s\":{},\"joint\":{}}}",
                esc(&p.as_char().to_string()),
                matches!(p.spacing(), proc_macro2::Spacing::Joint)
            )),
            TokenTree::Ident(id) => out.push(format!("{{\"t\":\"ident\",\"s\":{}}}", esc(&id.to_string()))),
            TokenTree::Literal(l) => out.push(format!("{{\"t\":\"lit\",\"s\":{}}}", esc(&l.to_string()))),
            TokenTree::Group(g) => {
                let d = match g.delimiter() {
                    Delimiter::Parenthesis => "(",
                    Delimiter::Brace => "{",
                    Delimiter::Bracket => "[",
                    Delimiter::None => "",
                };
                out.push(format!("{{\"t\":\"group\",\"d\":{},\"c\":{}}}", esc(d), tokens_json(g.stream())));
            }
        }
        i += 1;
    }
    arr(&out)
}

/// replace interpolations by placeholder identifiers so that the template can be parsed as Rust.
/// `#x` in visibility position (followed by fn/const/struct/..) becomes `pub`; `#x` standing alone in item /
/// statement position (a spliced TokenStream) is dropped; `#(#x)sep*` with a single interpolation is dropped,
/// other repetitions keep one instance.
fn deinterpolate(ts: TokenStream) -> TokenStream {
    deinterpolate_in(ts, true)
}

fn deinterpolate_in(ts: TokenStream, allow_drop: bool) -> TokenStream {
    let toks: Vec<TokenTree> = ts.into_iter().collect();
    let mut out = TokenStream::new();
    let mut i = 0;
    let mut prev_dropped = false;
    let is_interp_at = |k: usize| -> bool {
        k + 1 < toks.len()
            && matches!(&toks[k], TokenTree::Punct(p) if p.as_char() == '#')
            && matches!(&toks[k + 1], TokenTree::Ident(_))
    };
    while i < toks.len() {
        match &toks[i] {
            TokenTree::Punct(p) if p.as_char() == '#' && i + 1 < toks.len() => match &toks[i + 1] {
                TokenTree::Ident(id) => {
                    let next = toks.get(i + 2);
                    let vis_pos = matches!(next, Some(TokenTree::Ident(k)) if ["fn", "const", "struct", "enum", "unsafe", "type", "static"].contains(&k.to_string().as_str()));
                    let prev_ok = i == 0
                        || prev_dropped
                        || matches!(&toks[i - 1], TokenTree::Group(g) if g.delimiter() == Delimiter::Brace)
                        || matches!(&toks[i - 1], TokenTree::Punct(p) if p.as_char() == ';');
                    // a splice in statement position that is followed by the rest of the block (`#lookup None`, `#prelude let x = ..`)
                    let next_starts_stmt = matches!(next, Some(TokenTree::Ident(k)) if !["as", "in", "else", "where", "for", "if", "match"].contains(&k.to_string().as_str()))
                        || matches!(next, Some(TokenTree::Literal(_)));
                    let next_ok = next.is_none() || is_interp_at(i + 2) || next_starts_stmt;
                    let after_where = i > 0 && matches!(&toks[i - 1], TokenTree::Ident(k) if k == "where")
                        && !matches!(next, Some(TokenTree::Punct(p)) if p.as_char() == ':');
                    if after_where {
                        // `where #bound`: a spliced where-predicate; stands for some `T: Bound`
                        let name = format!("__I_{}", id);
                        let pred: TokenStream = format!("{}: ::core::marker::Sized", name).parse().unwrap();
                        out.extend(pred);
                        prev_dropped = false;
                    } else if vis_pos {
                        out.extend(std::iter::once(TokenTree::Ident(proc_macro2::Ident::new("pub", id.span()))));
                        prev_dropped = false;
                    } else if allow_drop && prev_ok && next_ok {
                        prev_dropped = true;
                    } else {
                        let name = format!("__I_{}", id);
                        out.extend(std::iter::once(TokenTree::Ident(proc_macro2::Ident::new(&name, id.span()))));
                        prev_dropped = false;
                    }
                    i += 2;
                    continue;
                }
                TokenTree::Group(g) if g.delimiter() == Delimiter::Parenthesis => {
                    let mut j = i + 2;
                    while j < toks.len() {
                        if let TokenTree::Punct(p2) = &toks[j] {
                            if p2.as_char() == '*' {
                                break;
                            }
                            j += 1;
                        } else {
                            break;
                        }
                    }
                    let inner: Vec<TokenTree> = g.stream().into_iter().collect();
                    let single = inner.len() == 2 && matches!(&inner[0], TokenTree::Punct(p) if p.as_char() == '#');
                    if !single {
                        out.extend(deinterpolate_in(g.stream(), allow_drop));
                    }
                    prev_dropped = single;
                    i = j + 1;
                    continue;
                }
                _ => {
                    out.extend(std::iter::once(toks[i].clone()));
                    prev_dropped = false;
                }
            },
            TokenTree::Group(g) => {
                let mut ng = proc_macro2::Group::new(g.delimiter(), deinterpolate_in(g.stream(), g.delimiter() == Delimiter::Brace));
                ng.set_span(g.span());
                out.extend(std::iter::once(TokenTree::Group(ng)));
                prev_dropped = false;
            }
            t => {
                out.extend(std::iter::once(t.clone()));
                prev_dropped = false;
            }
        }
        i += 1;
    }
    out
}

#[derive(Default)]
struct PathCollector {
    paths: Vec<String>,  // JSON objects
    uses: Vec<String>,
    bound: Vec<String>,
    macros: Vec<String>,
    methods: Vec<String>,
}

fn path_json(p: &syn::Path, kind: &str) -> String {
    let segs: Vec<String> = p.segments.iter().map(|s| s.ident.to_string()).collect();
    format!("{{\"kind\":{},\"leading\":{},\"segs\":{}}}", esc(kind), p.leading_colon.is_some(), sarr(&segs))
}

fn use_tree(t: &syn::UseTree, prefix: &mut Vec<String>, out: &mut Vec<(Vec<String>, String)>) {
    match t {
        syn::UseTree::Path(p) => {
            prefix.push(p.ident.to_string());
            use_tree(&p.tree, prefix, out);
            prefix.pop();
        }
        syn::UseTree::Name(n) => out.push((prefix.clone(), n.ident.to_string())),
        syn::UseTree::Rename(r) => out.push((prefix.clone(), r.rename.to_string())),
        syn::UseTree::Glob(_) => out.push((prefix.clone(), "*".to_string())),
        syn::UseTree::Group(g) => {
            for i in &g.items {
                use_tree(i, prefix, out);
            }
        }
    }
}

impl<'ast> Visit<'ast> for PathCollector {
    fn visit_expr_path(&mut self, e: &'ast syn::ExprPath) {
        self.paths.push(path_json(&e.path, "expr"));
        syn::visit::visit_expr_path(self, e);
    }
    fn visit_type_path(&mut self, e: &'ast syn::TypePath) {
        self.paths.push(path_json(&e.path, "type"));
        syn::visit::visit_type_path(self, e);
    }
    fn visit_expr_struct(&mut self, e: &'ast syn::ExprStruct) {
        self.paths.push(path_json(&e.path, "struct"));
        syn::visit::visit_expr_struct(self, e);
    }
    fn visit_pat_tuple_struct(&mut self, e: &'ast syn::PatTupleStruct) {
        self.paths.push(path_json(&e.path, "pat"));
        syn::visit::visit_pat_tuple_struct(self, e);
    }
    fn visit_pat_struct(&mut self, e: &'ast syn::PatStruct) {
        self.paths.push(path_json(&e.path, "pat"));
        syn::visit::visit_pat_struct(self, e);
    }
    fn visit_pat_ident(&mut self, e: &'ast syn::PatIdent) {
        self.bound.push(e.ident.to_string());
        syn::visit::visit_pat_ident(self, e);
    }
    fn visit_item_impl(&mut self, e: &'ast syn::ItemImpl) {
        if let Some((_, p, _)) = &e.trait_ {
            self.paths.push(path_json(p, "trait"));
        }
        syn::visit::visit_item_impl(self, e);
    }
    fn visit_trait_bound(&mut self, e: &'ast syn::TraitBound) {
        self.paths.push(path_json(&e.path, "bound"));
        syn::visit::visit_trait_bound(self, e);
    }
    fn visit_generic_param(&mut self, e: &'ast syn::GenericParam) {
        if let syn::GenericParam::Type(t) = e {
            self.bound.push(t.ident.to_string());
        }
        syn::visit::visit_generic_param(self, e);
    }
    fn visit_macro(&mut self, e: &'ast syn::Macro) {
        self.macros.push(path_json(&e.path, "macro"));
        syn::visit::visit_macro(self, e);
    }
    fn visit_expr_method_call(&mut self, e: &'ast syn::ExprMethodCall) {
        self.methods.push(e.method.to_string());
        syn::visit::visit_expr_method_call(self, e);
    }
    fn visit_item_use(&mut self, e: &'ast syn::ItemUse) {
        let mut out = Vec::new();
        use_tree(&e.tree, &mut Vec::new(), &mut out);
        for (prefix, name) in out {
            self.uses.push(format!("{{\"leading\":{},\"prefix\":{},\"name\":{}}}", e.leading_colon.is_some(), sarr(&prefix), esc(&name)));
        }
    }
    fn visit_item_struct(&mut self, e: &'ast syn::ItemStruct) {
        self.bound.push(e.ident.to_string());
        syn::visit::visit_item_struct(self, e);
    }
    fn visit_visibility(&mut self, _e: &'ast syn::Visibility) {}
}

fn parse_template(ts: TokenStream) -> Option<(String, PathCollector)> {
    let body = deinterpolate(ts);
    let s = body.to_string();
    let wrappers: [(&str, &str, &str); 10] = [
        ("file", "", ""),
        ("impl", "impl __W { ", " }"),
        ("stmts", "fn __w() { ", " }"),
        ("arms", "fn __w() { match __x { ", " } }"),
        ("expr", "fn __w() { let _ = ( ", " ); }"),
        ("exprs", "fn __w() { let _ = [ ", " ]; }"),
        ("fields", "struct __W { ", " }"),
        ("type", "type __W = ", ";"),
        ("where", "fn __w<B, F>() where ", " {}"),
        ("generics", "fn __w< ", " >() {}"),
    ];
    for (name, pre, post) in wrappers.iter() {
        let src = format!("{}{}{}", pre, s, post);
        if let Ok(f) = syn::parse_file(&src) {
            let mut c = PathCollector::default();
            c.visit_file(&f);
            return Some((name.to_string(), c));
        }
    }
    None
}

struct FnFacts {
    name: String,
    owner: String,
    params: Vec<String>,
    str_calls: Vec<String>,
    match_str_arms: Vec<String>,
    assigns: Vec<String>,
    pat_paths: Vec<String>,
    n_while: usize,
    n_for: usize,
    n_loop: usize,
    quotes: Vec<String>,
    calls: Vec<String>,
    macros: Vec<String>,
    ret: String,
}

struct FnVisitor<'a> {
    f: &'a mut FnFacts,
    file: String,
    conds: Vec<String>,
}

impl<'a, 'ast> Visit<'ast> for FnVisitor<'a> {
    fn visit_expr_method_call(&mut self, e: &'ast syn::ExprMethodCall) {
        let lits: Vec<String> = e
            .args
            .iter()
            .filter_map(|a| if let syn::Expr::Lit(syn::ExprLit { lit: syn::Lit::Str(s), .. }) = a { Some(s.value()) } else { None })
            .collect();
        let recv = e.receiver.to_token_stream().to_string();
        self.f.str_calls.push(format!("{{\"method\":{},\"recv\":{},\"lits\":{},\"nargs\":{},\"conds\":{}}}", esc(&e.method.to_string()), esc(&recv), sarr(&lits), e.args.len(), sarr(&self.conds)));
        syn::visit::visit_expr_method_call(self, e);
    }
    fn visit_expr_call(&mut self, e: &'ast syn::ExprCall) {
        self.f.calls.push(e.func.to_token_stream().to_string());
        syn::visit::visit_expr_call(self, e);
    }
    fn visit_expr_match(&mut self, e: &'ast syn::ExprMatch) {
        let mut lits = Vec::new();
        let mut tuples = Vec::new();
        for a in &e.arms {
            collect_pat_lits(&a.pat, &mut lits);
            let mut pl = Vec::new();
            collect_pat_lits(&a.pat, &mut pl);
            if !pl.is_empty() {
                tuples.push(format!("{{\"pats\":{},\"body\":{}}}", sarr(&pl), esc(&a.body.to_token_stream().to_string())));
            }
        }
        if !lits.is_empty() {
            self.f.match_str_arms.push(format!("{{\"scrutinee\":{},\"arms\":{}}}", esc(&e.expr.to_token_stream().to_string()), arr(&tuples)));
        }
        // conditions for quote! inside arms
        self.visit_expr(&e.expr);
        for a in &e.arms {
            self.conds.push(format!("match {} => {}", e.expr.to_token_stream(), a.pat.to_token_stream()));
            self.visit_arm(a);
            self.conds.pop();
        }
    }
    fn visit_expr_if(&mut self, e: &'ast syn::ExprIf) {
        self.visit_expr(&e.cond);
        let c = e.cond.to_token_stream().to_string();
        self.conds.push(format!("if {}", c));
        self.visit_block(&e.then_branch);
        self.conds.pop();
        if let Some((_, els)) = &e.else_branch {
            self.conds.push(format!("else {}", c));
            self.visit_expr(els);
            self.conds.pop();
        }
    }
    fn visit_expr_assign(&mut self, e: &'ast syn::ExprAssign) {
        self.f.assigns.push(format!(
            "{{\"lhs\":{},\"rhs\":{},\"conds\":{}}}",
            esc(&e.left.to_token_stream().to_string()),
            esc(&e.right.to_token_stream().to_string()),
            sarr(&self.conds)
        ));
        syn::visit::visit_expr_assign(self, e);
    }
    fn visit_pat(&mut self, p: &'ast syn::Pat) {
        match p {
            syn::Pat::TupleStruct(t) => self.f.pat_paths.push(t.path.to_token_stream().to_string()),
            syn::Pat::Struct(t) => self.f.pat_paths.push(t.path.to_token_stream().to_string()),
            syn::Pat::Path(t) => self.f.pat_paths.push(t.path.to_token_stream().to_string()),
            _ => {}
        }
        syn::visit::visit_pat(self, p);
    }
    fn visit_expr_while(&mut self, e: &'ast syn::ExprWhile) {
        self.f.n_while += 1;
        syn::visit::visit_expr_while(self, e);
    }
    fn visit_expr_for_loop(&mut self, e: &'ast syn::ExprForLoop) {
        self.f.n_for += 1;
        syn::visit::visit_expr_for_loop(self, e);
    }
    fn visit_expr_loop(&mut self, e: &'ast syn::ExprLoop) {
        self.f.n_loop += 1;
        syn::visit::visit_expr_loop(self, e);
    }
    fn visit_macro(&mut self, m: &'ast syn::Macro) {
        let name = m.path.segments.last().map(|s| s.ident.to_string()).unwrap_or_default();
        self.f.macros.push(name.clone());
        if name == "quote" {
            let line = m.path.segments[0].ident.span().start().line;
            let parsed = parse_template(m.tokens.clone());
            let p = match parsed {
                Some((w, c)) => format!(
                    "{{\"wrapper\":{},\"paths\":{},\"uses\":{},\"bound\":{},\"macros\":{},\"methods\":{}}}",
                    esc(&w), arr(&c.paths), arr(&c.uses), sarr(&c.bound), arr(&c.macros), sarr(&c.methods)
                ),
                None => "null".to_string(),
            };
            self.f.quotes.push(format!(
                "{{\"file\":{},\"fn\":{},\"line\":{},\"conds\":{},\"tokens\":{},\"parsed\":{}}}",
                esc(&self.file), esc(&self.f.name), line, sarr(&self.conds), tokens_json(m.tokens.clone()), p
            ));
        } else if name == "matches" || name == "emit_error" || name == "abort" {
            // patterns / messages inside these macros: record the raw text
            self.f.str_calls.push(format!("{{\"method\":{},\"recv\":\"\",\"lits\":{},\"nargs\":0}}", esc(&format!("{}!", name)), sarr(&[m.tokens.to_string()])));
        }
    }
}

fn collect_pat_lits(p: &syn::Pat, out: &mut Vec<String>) {
    match p {
        syn::Pat::Lit(l) => {
            if let syn::Lit::Str(s) = &l.lit {
                out.push(s.value());
            }
        }
        syn::Pat::Or(o) => {
            for c in &o.cases {
                collect_pat_lits(c, out);
            }
        }
        _ => {}
    }
}

fn fn_json(f: &FnFacts) -> String {
    format!(
        "{{\"name\":{},\"owner\":{},\"params\":{},\"ret\":{},\"str_calls\":{},\"match_str_arms\":{},\"assigns\":{},\"pat_paths\":{},\"while\":{},\"for\":{},\"loop\":{},\"quotes\":{},\"calls\":{},\"macros\":{}}}",
        esc(&f.name), esc(&f.owner), sarr(&f.params), esc(&f.ret), arr(&f.str_calls), arr(&f.match_str_arms), arr(&f.assigns), sarr(&f.pat_paths),
        f.n_while, f.n_for, f.n_loop, arr(&f.quotes), sarr(&f.calls), sarr(&f.macros)
    )
}

fn do_fn(file: &str, owner: &str, sig: &syn::Signature, block: &syn::Block, out: &mut Vec<String>) {
    let mut f = FnFacts {
        name: sig.ident.to_string(),
        owner: owner.to_string(),
        params: sig.inputs.iter().map(|a| a.to_token_stream().to_string()).collect(),
        str_calls: vec![], match_str_arms: vec![], assigns: vec![], pat_paths: vec![],
        n_while: 0, n_for: 0, n_loop: 0, quotes: vec![], calls: vec![], macros: vec![],
        ret: sig.output.to_token_stream().to_string(),
    };
    {
        let mut v = FnVisitor { f: &mut f, file: file.to_string(), conds: vec![] };
        v.visit_block(block);
    }
    out.push(fn_json(&f));
}

fn walk(dir: &std::path::Path, files: &mut Vec<std::path::PathBuf>) {
    let mut es: Vec<_> = std::fs::read_dir(dir).unwrap().map(|e| e.unwrap().path()).collect();
    es.sort();
    for p in es {
        if p.is_dir() {
            walk(&p, files);
        } else if p.extension().map(|e| e == "rs").unwrap_or(false) {
            files.push(p);
        }
    }
}

/// `tmplx --expanded <file>`: splits the output of -Zunpretty=expanded into modules and prints, per module, the
/// normalised token text of every item (so that expansions can be compared as token streams, not as text)
fn expanded(path: &str) {
    let src = std::fs::read_to_string(path).unwrap();
    let ast = syn::parse_file(&src).expect("expanded source does not parse");
    let mut mods = Vec::new();
    fn items_json(items: &[syn::Item], out: &mut Vec<String>) {
        for it in items {
            match it {
                syn::Item::Mod(m) if m.ident == "inner" => {
                    if let Some((_, its)) = &m.content {
                        items_json(its, out);
                    }
                }
                syn::Item::Use(_) | syn::Item::Macro(_) => {}
                syn::Item::Enum(e) => {
                    out.push(format!("{{\"kind\":\"enum\",\"name\":{},\"tokens\":{}}}", esc(&e.ident.to_string()), esc(&e.to_token_stream().to_string())));
                }
                other => {
                    let mut o = other.clone();
                    strip_docs(&mut o);
                    // a key that identifies the item independently of its body, and for inherent impls the members one by one
                    let (key, members) = match other {
                        syn::Item::Impl(im) => {
                            let st = im.self_ty.to_token_stream().to_string();
                            match &im.trait_ {
                                Some((_, p, _)) => (format!("impl {} for {}", p.to_token_stream(), st), Vec::new()),
                                None => {
                                    let mut ms = Vec::new();
                                    for ii in &im.items {
                                        let name = match ii {
                                            syn::ImplItem::Fn(f) => f.sig.ident.to_string(),
                                            syn::ImplItem::Const(c) => c.ident.to_string(),
                                            syn::ImplItem::Type(t) => t.ident.to_string(),
                                            _ => String::from("?"),
                                        };
                                        ms.push(format!("{{\"name\":{},\"tokens\":{}}}", esc(&name), esc(&ii.to_token_stream().to_string())));
                                    }
                                    (format!("impl {}", st), ms)
                                }
                            }
                        }
                        syn::Item::Struct(s) => (format!("struct {}", s.ident), Vec::new()),
                        _ => (String::from("other"), Vec::new()),
                    };
                    out.push(format!("{{\"kind\":\"item\",\"key\":{},\"members\":{},\"tokens\":{}}}", esc(&key), arr(&members), esc(&o.to_token_stream().to_string())));
                }
            }
        }
    }
    for it in &ast.items {
        if let syn::Item::Mod(m) = it {
            if let Some((_, its)) = &m.content {
                let mut v = Vec::new();
                items_json(its, &mut v);
                mods.push(format!("{}:{}", esc(&m.ident.to_string()), arr(&v)));
            }
        }
    }
    println!("{{{}}}", mods.join(","));
}

fn strip_docs(_it: &mut syn::Item) {}

fn main() {
    if std::env::args().nth(1).as_deref() == Some("--expanded") {
        expanded(&std::env::args().nth(2).expect("file"));
        return;
    }
    let root = std::env::args().nth(1).expect("usage: tmplx <src dir>");
    let root = std::path::PathBuf::from(root);
    let mut files = Vec::new();
    walk(&root, &mut files);
    let mut fjson = Vec::new();
    for p in &files {
        let rel = p.strip_prefix(&root).unwrap().to_string_lossy().to_string();
        let src = std::fs::read_to_string(p).unwrap();
        let ast = match syn::parse_file(&src) {
            Ok(a) => a,
            Err(e) => {
                fjson.push(format!("{{\"file\":{},\"error\":{}}}", esc(&rel), esc(&e.to_string())));
                continue;
            }
        };
        let mut fns = Vec::new();
        let mut docs = Vec::new();
        for it in &ast.items {
            match it {
                syn::Item::Fn(f) => {
                    for a in &f.attrs {
                        if a.path().is_ident("doc") {
                            if let syn::Meta::NameValue(nv) = &a.meta {
                                if let syn::Expr::Lit(syn::ExprLit { lit: syn::Lit::Str(s), .. }) = &nv.value {
                                    docs.push(s.value());
                                }
                            }
                        }
                    }
                    do_fn(&rel, "", &f.sig, &f.block, &mut fns)
                }
                syn::Item::Impl(im) => {
                    let owner = im.self_ty.to_token_stream().to_string();
                    for ii in &im.items {
                        if let syn::ImplItem::Fn(f) = ii {
                            do_fn(&rel, &owner, &f.sig, &f.block, &mut fns);
                        }
                    }
                }
                _ => {}
            }
        }
        fjson.push(format!("{{\"file\":{},\"fns\":{},\"docs\":{}}}", esc(&rel), arr(&fns), sarr(&docs)));
    }
    println!("{{\"files\":{}}}", arr(&fjson));
}
