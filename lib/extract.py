"""Runs the extractors (factdump driver, cargo) on witness workspaces and on /repo.
Everything is rebuilt from /repo's current working tree; results are cached under
/verif/.cache keyed by a hash of the tree (DESIGN.md 9)."""
import hashlib, json, os, shutil, subprocess, sys, tempfile, time, fcntl

VERIF = os.path.dirname(os.path.dirname(os.path.abspath(__file__)))
REPO = os.environ.get('VERIF_REPO', '/repo')
CACHE = os.environ.get('VERIF_CACHE') or os.path.join(VERIF, '.cache')
DRIVER = os.environ.get('VERIF_DRIVER') or os.path.join(VERIF, 'factdump', 'target', 'release', 'factdump')
TMPLX = os.environ.get('VERIF_TMPLX') or os.path.join(VERIF, 'tmplx', 'target', 'release', 'tmplx')

def sh(cmd, **kw):
    return subprocess.run(cmd, stdout=subprocess.PIPE, stderr=subprocess.PIPE, text=True, **kw)

_sysroot = None
def nightly_sysroot():
    global _sysroot
    if _sysroot is None:
        _sysroot = sh(['rustc', '+nightly', '--print', 'sysroot']).stdout.strip()
    return _sysroot

def tree_hash():
    """sha-256 over every file of /repo outside target/ and .git/"""
    h = hashlib.sha256()
    for base, dirs, files in os.walk(REPO):
        dirs[:] = sorted(d for d in dirs if d not in ('target', '.git'))
        for f in sorted(files):
            p = os.path.join(base, f)
            h.update(os.path.relpath(p, REPO).encode())
            try:
                with open(p, 'rb') as fh:
                    h.update(fh.read())
            except OSError:
                pass
    for tool in (DRIVER, TMPLX):
        if os.path.exists(tool):
            st = os.stat(tool)
            h.update(('%s:%d:%d' % (tool, st.st_size, int(st.st_mtime))).encode())
    return h.hexdigest()[:20]

def scratch_dir(prefix):
    base = os.environ.get('VERIF_SCRATCH') or os.path.join(tempfile.gettempdir(), 'enum-tools-verif')
    os.makedirs(base, exist_ok=True)
    return tempfile.mkdtemp(prefix=prefix + '-', dir=base)

class Stage:
    """a cached extraction stage: directory CACHE/<tree>/<name>; built under a lock"""
    def __init__(self, name):
        self.tree = tree_hash()
        self.dir = os.path.join(CACHE, self.tree, name)
        self.name = name
        self.hit = None
    def ensure(self, builder):
        os.makedirs(os.path.dirname(self.dir), exist_ok=True)
        lockp = self.dir + '.lock'
        with open(lockp, 'w') as lf:
            fcntl.flock(lf, fcntl.LOCK_EX)
            if os.path.exists(os.path.join(self.dir, 'DONE')):
                self.hit = True
                return self.dir
            self.hit = False
            if os.path.exists(self.dir):
                shutil.rmtree(self.dir)
            tmp = self.dir + '.tmp'
            if os.path.exists(tmp):
                shutil.rmtree(tmp)
            os.makedirs(tmp)
            t0 = time.time()
            builder(tmp)
            with open(os.path.join(tmp, 'DONE'), 'w') as f:
                f.write('%.1f\n' % (time.time() - t0))
            os.rename(tmp, self.dir)
            prune()
            return self.dir

def prune(keep=int(os.environ.get('VERIF_CACHE_KEEP', '3'))):
    try:
        ds = [os.path.join(CACHE, d) for d in os.listdir(CACHE) if os.path.isdir(os.path.join(CACHE, d))]
        ds.sort(key=lambda d: os.stat(d).st_mtime, reverse=True)
        for d in ds[keep:]:
            shutil.rmtree(d, ignore_errors=True)
    except OSError:
        pass

def driver_env(out_dir, target_dir):
    env = dict(os.environ)
    env.update({
        'FACTDUMP_OUT': out_dir,
        'LD_LIBRARY_PATH': nightly_sysroot() + '/lib',
        'RUSTFLAGS': '-Zmir-opt-level=0 -Awarnings -Zmir-enable-passes=-CheckEnums',
        'RUSTC_WORKSPACE_WRAPPER': DRIVER,
        'CARGO_TARGET_DIR': target_dir,
        'CARGO_NET_OFFLINE': 'true',
    })
    env.pop('RUSTC_WRAPPER', None)
    return env

def run_driver(ws, out_dir, manifest=None, extra=()):
    """cargo +nightly check with the factdump wrapper on workspace ws; fresh target dir (removed afterwards).
    returns (returncode, stderr, json diagnostics list)"""
    if not os.path.exists(DRIVER):
        raise SystemExit('checker error: factdump driver not built; run ./setup.sh')
    target = os.path.join(ws, 'target-fd')
    os.makedirs(out_dir, exist_ok=True)
    cmd = ['cargo', '+nightly', 'check', '--offline', '--message-format=json', '--keep-going'] + list(extra)
    if manifest:
        cmd += ['--manifest-path', manifest]
    p = sh(cmd, cwd=ws, env=driver_env(out_dir, target))
    diags = []
    for line in p.stdout.splitlines():
        if line.startswith('{'):
            try:
                m = json.loads(line)
            except ValueError:
                continue
            if m.get('reason') == 'compiler-message':
                diags.append(m)
    shutil.rmtree(target, ignore_errors=True)
    return p.returncode, p.stderr, diags

def run_cargo(ws, args, toolchain=None, env_extra=None):
    env = dict(os.environ)
    env['CARGO_NET_OFFLINE'] = 'true'
    env.pop('RUSTC_WRAPPER', None); env.pop('RUSTC_WORKSPACE_WRAPPER', None)
    if env_extra:
        env.update(env_extra)
    cmd = ['cargo'] + ([toolchain] if toolchain else []) + list(args)
    return sh(cmd, cwd=ws, env=env)


def shared_target():
    """a target directory for plain (wrapper-less) cargo builds of witness crates, shared by the stages of one tree
    so that the proc-macro and its dependencies are compiled once; lives in the cache and is pruned with it"""
    d = os.path.join(CACHE, tree_hash(), 'target-plain')
    os.makedirs(d, exist_ok=True)
    return d
