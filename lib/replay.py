"""./check <ID> --replay <file>: re-decides the recorded case against /repo's current tree.
instance violations: the recorded declaration + configuration is re-extracted alone and the property's rules re-run;
witness violations  : the recorded case is recompiled alone;
generator rules     : the whole (cheap) check is re-run."""
import json, os, shutil, sys, time
from . import extract as X, runner
from corpus import instances as I

def run(mod, path, seed, t0):
    with open(path) as f:
        rp = json.load(f)
    v = rp['first']
    prop = rp['property']
    from rules.ctx import Ctx
    if v.get('rec'):
        rec = dict(v['rec']); rec['id'] = 'm0000'
        insts = [rec]
        st = X.Stage('replay-%s' % os.path.basename(path).replace('.json', ''))
        shutil.rmtree(st.dir, ignore_errors=True)
        def build(out):
            ws = X.scratch_dir('replay')
            try:
                I.write_workspace(ws, insts, repo=X.REPO, shards=1)
                rc, err, diags = X.run_driver(ws, os.path.join(out, 'facts'))
                errors = [{'crate': 's00', 'message': d['message'].get('message'), 'code': (d['message'].get('code') or {}).get('code'), 'spans': [], 'rendered': (d['message'].get('rendered') or '')[:1500], 'instance': 'm0000'}
                          for d in diags if d['message'].get('level') == 'error']
                json.dump(insts, open(os.path.join(out, 'instances.json'), 'w'))
                json.dump({'rc': rc, 'errors': errors, 'stderr_tail': err[-2000:]}, open(os.path.join(out, 'errors.json'), 'w'))
            finally:
                shutil.rmtree(ws, ignore_errors=True)
        d = st.ensure(build)
        modname = mod.__name__
        ctx, n = runner.run_instances(modname, d, extra={'clean': {}} if prop == 'C16' else {})
        shutil.rmtree(st.dir, ignore_errors=True)
        # keep only violations of the recorded rule family
        return runner.finish(prop, 'quick', seed, getattr(mod, 'LEVEL', 'translation_validation') if prop not in ('C10', 'C12', 'C13', 'C14', 'C16', 'C17') else 'other', ctx, t0,
                             explanation='replay of %s' % rp['key'], coverage_extra={'replay_of': rp['key']})
    if v.get('case'):
        case = v['case']
        st, r = runner.stage_batch('replay-%s' % case['id'], [case])
        ctx = Ctx(prop)
        ctx.programs = {case['id']}
        runner.judge_batch(ctx, [case], r, prop)
        ctx.sample({'case': case})
        return runner.finish(prop, 'quick', seed, 'other', ctx, t0, explanation='replay of %s' % rp['key'], coverage_extra={'replay_of': rp['key']})
    return mod.main('quick', seed, t0)
