"""Shared driver of all checks: stages (cached extraction), parallel rule evaluation, evidence, known findings,
replay files, exit codes.  See DESIGN.md 9."""
import hashlib, json, os, shutil, sys, time, importlib, multiprocessing, traceback
from . import extract as X
from corpus import instances as I

VERIF = X.VERIF
EVID = os.environ.get('VERIF_EVIDENCE_DIR') or os.path.join(VERIF, 'evidence')
REPLAY = os.environ.get('VERIF_REPLAY_DIR') or os.path.join(VERIF, 'replays')

def D_HOSTILE():
    from corpus import decls
    return decls.HOSTILE + ['crate-level trait impls for primitives v1']

TRUSTED_BASE = [
    'rustc (nightly) type checker, MIR builder, resolver and const-evaluator; factdump only serialises their output',
    'core summary table: slice::iter, IntoIterator::into_iter (array, slice ref, identity on iterators), Iterator::{next,find,map,enumerate,zip,copied}, DoubleEndedIterator::next_back',
    'core summary table: RangeInclusive::{new,contains,start,end}; Index<RangeInclusive<usize>>/Index<RangeTo<usize>> for [T]; Option::{map,and_then,unwrap_unchecked}; MaybeUninit::{uninit,write,assume_init}',
    'core summary table: {i,u}{8..128,size}::{wrapping_add,wrapping_sub}; <str as PartialEq>::eq; Formatter::write_str; mem::transmute',
    'iterator algebra of Map<RangeInclusive<R>,fn>, Copied<slice::Iter>, array::IntoIter (Iterator + DoubleEndedIterator + exact size_hint + fused)',
    'rule soundness is argued next to each rule (rules/*.py), not mechanised',
]

# ------------------------------------------------------------------ stages
def hostile_subset(insts):
    out = []
    k = 0
    for x in insts:
        if x['kind'] in ('single', 'matrix', 'steer') or (x['kind'] in ('full', 'params') and x['decl']['n'] <= 50 and (k % 3 == 0)):
            out.append(x)
        k += 1
    return out

def stage_inst(tier, seed, hostile=False):
    """witness workspace of derive instances -> fact files.  hostile=True: the same instances (a subset) re-emitted in
    #![no_std] crates whose modules define items, modules and macros named like prelude / core items (C16)"""
    insts = I.build(tier, seed)
    if hostile:
        insts = hostile_subset(insts)
    st = X.Stage('%s-%s-%d-s2-%s' % ('hostile' if hostile else 'inst', tier, seed, hashlib.sha256(json.dumps([insts, D_HOSTILE() if hostile else 0], sort_keys=True).encode()).hexdigest()[:12]))
    def build(out):
        ws = X.scratch_dir('inst')
        try:
            I.write_workspace(ws, insts, repo=X.REPO, crate_prefix='h' if hostile else 's', hostile=hostile, shards=64 if tier == 'thorough' else 16)
            rc, err, diags = X.run_driver(ws, os.path.join(out, 'facts'))
            errors = []
            for d in diags:
                m = d['message']
                if m.get('level') == 'error':
                    errors.append({'crate': d.get('target', {}).get('name'), 'message': m.get('message'),
                                   'code': (m.get('code') or {}).get('code'),
                                   'spans': [{'file': s['file_name'], 'line': s['line_start']} for s in m.get('spans', []) if s.get('is_primary')],
                                   'rendered': (m.get('rendered') or '')[:1500]})
            # map errors to instances by line
            line_index = {}
            for x in insts:
                pass
            srcs = {}
            for c in sorted({x['crate'] for x in insts}):
                with open(os.path.join(ws, c, 'src', 'lib.rs')) as f:
                    lines = f.read().split('\n')
                cur = None; m = {}
                for n, l in enumerate(lines, 1):
                    if l.startswith('pub mod m'):
                        cur = l.split()[2]
                    m[n] = cur
                srcs[c] = m
            for e in errors:
                e['instance'] = None
                for s in e['spans']:
                    c = s['file'].split('/')[0]
                    if c in srcs:
                        e['instance'] = srcs[c].get(s['line'])
            with open(os.path.join(out, 'instances.json'), 'w') as f:
                json.dump(insts, f)
            with open(os.path.join(out, 'errors.json'), 'w') as f:
                json.dump({'rc': rc, 'errors': errors, 'stderr_tail': err[-3000:]}, f)
        finally:
            shutil.rmtree(ws, ignore_errors=True)
    d = st.ensure(build)
    return st, d

# ------------------------------------------------------------------ parallel evaluation
def _work(args):
    modname, fact_path, recs, extra = args
    try:
        sys.path.insert(0, VERIF)
        from rules.facts import Crate, Inst
        from rules.fold import Folder
        from rules.ctx import Ctx
        mod = importlib.import_module(modname)
        cr = Crate(fact_path)
        F = Folder(cr)
        ctx = Ctx(mod.PROP)
        for r in recs:
            inst = Inst(r, cr)
            try:
                mod.check_instance(inst, F, ctx, extra)
            except Exception as e:
                ctx.error('rule engine exception on %s: %s\n%s' % (r['id'], e, traceback.format_exc()[-1500:]))
        return ctx
    except Exception as e:
        from rules.ctx import Ctx
        c = Ctx('?')
        c.error('worker failed on %s: %s\n%s' % (fact_path, e, traceback.format_exc()[-1500:]))
        return c

def run_instances(modname, stage_dir, extra=None, select=None):
    from rules.ctx import Ctx
    mod = importlib.import_module(modname)
    with open(os.path.join(stage_dir, 'instances.json')) as f:
        recs = json.load(f)
    with open(os.path.join(stage_dir, 'errors.json')) as f:
        errs = json.load(f)
    total = Ctx(mod.PROP)
    failed_crates = set()
    by_crate = {}
    for r in recs:
        if select and not select(r):
            continue
        by_crate.setdefault(r['crate'], []).append(r)
    jobs = []
    for c, rs in sorted(by_crate.items()):
        fp = os.path.join(stage_dir, 'facts', c + '.json')
        if not os.path.exists(fp):
            failed_crates.add(c)
            continue
        jobs.append((modname, fp, rs, extra))
    # accept witnesses that do not compile are violations of the property whose corpus contains them (DESIGN 7)
    for e in errs['errors']:
        iid = e.get('instance')
        rec = next((r for r in recs if r['id'] == iid), None)
        if rec is not None and select and not select(rec):
            continue
        class _I:
            pass
        inst = None
        if rec is not None:
            from rules.facts import Inst
            inst = _FakeInst(rec)
        total.violation('witness-rejected', inst, 'derive', 'a supported declaration/configuration does not compile: %s%s' % (e['message'], (' [%s]' % e['code']) if e.get('code') else ''),
                        key='%s/witness-rejected/%s' % (mod.PROP, (e.get('code') or e['message'])[:60]), kind='witness-rejected')
        total.violations[-1]['rustc'] = e['rendered']
    if failed_crates and not errs['errors']:
        total.error('fact files missing for crates %s without a compiler diagnostic: %s' % (sorted(failed_crates), errs.get('stderr_tail', '')[-800:]))
    if jobs:
        # a worker that dies (e.g. killed under memory pressure) must not hang the check: ProcessPoolExecutor raises
        # BrokenProcessPool, and the jobs that did not complete are then redone one by one in this process
        import concurrent.futures as cf
        done = set()
        nproc = int(os.environ.get('VERIF_JOBS', '0') or 0) or min(16, len(jobs), os.cpu_count() or 4)
        try:
            with cf.ProcessPoolExecutor(max_workers=nproc) as ex:
                futs = {ex.submit(_work, j): i for i, j in enumerate(jobs)}
                for fu in cf.as_completed(futs):
                    total.merge(fu.result())
                    done.add(futs[fu])
        except cf.process.BrokenProcessPool:
            for i, j in enumerate(jobs):
                if i not in done:
                    total.merge(_work(j))
    return total, len(recs)

class _FakeInst:
    def __init__(self, rec):
        from corpus import decls as D
        self.rec = rec; self.id = rec['id']; self._D = D
    def describe(self):
        from corpus import decls as D
        return ' '.join(D.render_enum(self.rec['decl'], self.rec['cfg']))

# ------------------------------------------------------------------ finishing a check
def load_known():
    with open(os.path.join(VERIF, 'known_findings.json')) as f:
        k = json.load(f)
    return {x['key']: x for x in k['findings'] if x.get('status') == 'open'}

# counts confirmed on the pinned tree (quick tier); a run whose counts fall below them passes vacuously -> checker error
FLOORS = {
    'C01': {'programs': 1000, 'accept-set': 2000, 'into-cast': 2000},
    'C02': {'programs': 1200, 'obligation:transmute': 1000},      # (no floor per kind of unsafe operation: replacing one by safe code is a legitimate change)
    'C03': {'programs': 1000, 'as_str-name': 1000, 'delegation': 2500},
    'C04': {'programs': 1000, 'from_str-map': 2000},
    'C05': {'programs': 1000, 'step': 2000},
    'C06': {'programs': 1000, 'constructor': 1000, 'cursor': 1500},
    'C07': {'programs': 800, 'constructor': 1500, 'index': 1200},
    'C08': {'programs': 1000, 'constructor': 1000},
    'C09': {'programs': 1200, 'constructor': 3000, 'step': 2000, 'obligation:transmute': 1000},
    'C10': {'programs': 1200, 'accept-witness': 1200, 'catalogue': 40},
    'C11': {'programs': 1200, 'accepted': 1200},
    'C15': {'programs': 1200, 'vis': 12000, 'helper-private': 5000},
    'C16': {'programs': 500, 'path-lint': 40, 'resolution-identity': 500},      # 55 templates today; merging templates is a legitimate change
    'C18': {'programs': 120, 'perm-identity': 40, 'repr-identity': 40},
    'C19': {'programs': 1200, 'signature': 10000, 'iter-traits': 8000},
}

def finish(prop, tier, seed, level, ctx, t0, coverage_extra=None, assumptions=None, explanation=None, nontrivial_rule=None):
    """prints KNOWN-FINDING / VIOLATION lines, writes evidence and replay files, returns the exit code"""
    os.makedirs(EVID, exist_ok=True)
    os.makedirs(REPLAY, exist_ok=True)
    known = load_known()
    out_viol = []
    seen_known = set()
    for v in ctx.violations:
        if v['key'] in known and known[v['key']]['property'] == prop:
            if v['key'] not in seen_known:
                print('KNOWN-FINDING: property=%s %s: %s' % (prop, v['key'], known[v['key']]['what']))
                seen_known.add(v['key'])
            continue
        out_viol.append(v)
    # one replay file per distinct key (first instance), all listed inside
    by_key = {}
    for v in out_viol:
        by_key.setdefault(v['key'], []).append(v)
    for key, vs in by_key.items():
        h = hashlib.sha256(key.encode()).hexdigest()[:10]
        path = os.path.join(REPLAY, '%s-%s.json' % (prop, h))
        with open(path, 'w') as f:
            json.dump({'property': prop, 'key': key, 'tier': tier, 'seed': seed, 'count': len(vs), 'first': vs[0],
                       'others': [{'instance': x.get('instance'), 'declaration': x.get('declaration'), 'detail': x['detail']} for x in vs[1:20]]}, f, indent=1, ensure_ascii=False)
        v = vs[0]
        print('VIOLATION property=%s replay=%s' % (prop, path))
        print('  rule=%s kind=%s item=%s instances=%d' % (v['rule'], v['kind'], v['item'], len(vs)))
        print('  %s' % v['detail'])
        if v.get('declaration'):
            print('  first instance: %s' % v['declaration'][:400])
        if v.get('construct'):
            print('  generator construct: %s' % v['construct'])
    if not ctx.violations and not (coverage_extra or {}).get('replay_of'):
        for k, fl in FLOORS.get(prop, {}).items():
            got = len(ctx.programs) if k == 'programs' else ctx.by_rule.get(k, 0)
            if got < fl:
                ctx.error('%s: %s = %d is below the floor %d confirmed on the pinned tree: the check would pass vacuously' % (prop, k, got, fl))
    for e in ctx.errors[:10]:
        print('CHECKER-ERROR: %s' % e)
    cov = {
        'programs': len(ctx.programs),
        'disagreements_checked': ctx.applications,
        'evaluations': ctx.applications,
        'distinct_nontrivial': len(ctx.nontrivial),
        'rule': nontrivial_rule or 'distinct (repr, value-shape class, declaration order, spelling, naming, configuration kind) vectors among the analysed instances that enable the item',
        'samples': ctx.samples[:6] or [{'note': 'no sample recorded'}],
        'rule_applications': dict(sorted(ctx.by_rule.items())),
        'checker_cmd': './check %s --tier %s' % (prop, tier),
        'trusted_base': TRUSTED_BASE,
        'known_findings_printed': sorted(seen_known),
        'floors': FLOORS.get(prop, {}),
    }
    if ctx.obligations:
        cov['obligations'] = ctx.obligations
        cov['discharged'] = ctx.discharged
    if explanation:
        cov['explanation'] = explanation
    if coverage_extra:
        cov.update(coverage_extra)
    ev = {
        'property_id': prop, 'tier': tier, 'seed': seed, 'level': level, 'coverage': cov,
        'assumptions': assumptions or [],
        'wall_s': round(time.time() - t0, 2), 'violations': len(out_viol),
    }
    with open(os.path.join(EVID, prop + '.json'), 'w') as f:
        json.dump(ev, f, indent=1, ensure_ascii=False)
    if out_viol:
        return 1
    return 2 if ctx.errors else 0

# ------------------------------------------------------------------ reject / accept batches (C12, C13, C14, ...)
def stage_batch(name, cases, version=1):
    """compiles the accept cases in one crate and the reject cases in another; returns (stage, results)
    results: {case id: {'errors': [{'message','code','rendered'}]}}"""
    from corpus import rejects as RJ
    st = X.Stage('batch-%s-v%d-%s' % (name, version, hashlib.sha256(json.dumps(cases, sort_keys=True).encode()).hexdigest()[:12]))
    def build(out):
        ws = X.scratch_dir('batch')
        try:
            res = {}
            meta = {}
            for kind in ('accept', 'reject'):
                cs = [c for c in cases if c['expect'] == kind]
                if not cs:
                    continue
                cdir = os.path.join(ws, kind)
                os.makedirs(os.path.join(cdir, 'src'))
                src, index = RJ.render_batch(cs)
                with open(os.path.join(cdir, 'src', 'lib.rs'), 'w') as f:
                    f.write(src)
                with open(os.path.join(cdir, 'Cargo.toml'), 'w') as f:
                    f.write('[package]\nname = "b_%s"\nversion = "0.0.0"\nedition = "2021"\n[dependencies]\nenum-tools = { path = "%s" }\n[workspace]\n' % (kind, X.REPO))
                shutil.copy(os.path.join(X.REPO, 'Cargo.lock'), os.path.join(cdir, 'Cargo.lock'))
                p = X.run_cargo(cdir, ['check', '--offline', '--message-format=json'], toolchain='+nightly',
                                env_extra={'CARGO_TARGET_DIR': X.shared_target(), 'RUSTFLAGS': '-Awarnings'})
                meta[kind] = {'rc': p.returncode, 'stderr_tail': p.stderr[-1500:]}
                for c in cs:
                    res[c['id']] = {'errors': []}
                for line in p.stdout.splitlines():
                    if not line.startswith('{'):
                        continue
                    try:
                        m = json.loads(line)
                    except ValueError:
                        continue
                    if m.get('reason') != 'compiler-message':
                        continue
                    msg = m['message']
                    if msg.get('level') != 'error':
                        continue
                    cid = None
                    for s in msg.get('spans', []):
                        if s.get('is_primary') and s['file_name'].endswith('lib.rs'):
                            cid = index.get(s['line_start'])
                            # errors inside macro expansions: use the outermost call site
                            e = s.get('expansion')
                            while e:
                                sp = e.get('span') or {}
                                if sp.get('file_name', '').endswith('lib.rs') and index.get(sp.get('line_start')):
                                    cid = index.get(sp['line_start'])
                                e = sp.get('expansion')
                    rec = {'message': msg.get('message'), 'code': (msg.get('code') or {}).get('code'), 'rendered': (msg.get('rendered') or '')[:600]}
                    if cid in res:
                        res[cid]['errors'].append(rec)
                    else:
                        meta.setdefault('unattributed', []).append(rec)
            with open(os.path.join(out, 'results.json'), 'w') as f:
                json.dump({'results': res, 'meta': meta}, f)
        finally:
            shutil.rmtree(ws, ignore_errors=True)
    d = st.ensure(build)
    with open(os.path.join(d, 'results.json')) as f:
        r = json.load(f)
    return st, r

def judge_batch(ctx, cases, r, prop, construct_of=None):
    """applies the accept/reject expectations; violations keyed by case class"""
    res, meta = r['results'], r['meta']
    unattr = [u for u in meta.get('unattributed', []) if 'aborting due to' not in (u['message'] or '') and 'could not compile' not in (u['message'] or '')]
    n_ok = 0
    for c in cases:
        errs = res.get(c['id'], {}).get('errors', [])
        src = ' '.join(c['body'])
        if c['expect'] == 'accept':
            if errs:
                if True:
                    ctx.violation('must-accept', None, c['class'], 'a declaration that must be accepted is rejected: %s%s  --  %s' % (errs[0]['message'], (' [%s]' % errs[0]['code']) if errs[0]['code'] else '', src[:400]),
                                  key='%s/must-accept/%s' % (prop, c['class']), construct=construct_of(c) if construct_of else None)
                    ctx.violations[-1]['case'] = c
            else:
                n_ok += 1; ctx.ok('accept-witness')
        else:
            own = [e for e in errs if e['code'] is None]
            if not errs or (c['owner'] == 'derive' and not own):
                what = 'compiles without any error' if not errs else 'is rejected only by rustc itself (%s), not by the derive' % errs[0]['message']
                ctx.violation('must-reject', None, c['class'], 'a declaration/configuration outside the supported domain %s: %s' % (what, src[:500]),
                              key='%s/must-reject/%s' % (prop, c['class']), construct=construct_of(c) if construct_of else None)
                ctx.violations[-1]['case'] = c
            else:
                n_ok += 1; ctx.ok('reject-witness')
        ctx.nontrivial.add(c['class'])
    if meta.get('accept', {}).get('rc', 0) != 0 and not any(res.get(c['id'], {}).get('errors') for c in cases if c['expect'] == 'accept'):
        ctx.error('accept batch failed to compile without an attributable error: %s' % meta['accept']['stderr_tail'][-600:])
    return n_ok

# ------------------------------------------------------------------ the generator's own MIR
def stage_gmir():
    st = X.Stage('gmir-v1')
    def build(out):
        ws = X.scratch_dir('gmir')
        try:
            rc, err, diags = X.run_driver(ws, os.path.join(out, 'facts'), manifest=os.path.join(X.REPO, 'Cargo.toml'))
            if rc != 0 or not os.path.exists(os.path.join(out, 'facts', 'enum_tools.json')):
                with open(os.path.join(out, 'error.txt'), 'w') as f:
                    f.write(err[-4000:])
        finally:
            shutil.rmtree(ws, ignore_errors=True)
    d = st.ensure(build)
    return st, d


# ------------------------------------------------------------------ expansions of the family instances (C18, C10)
def stage_expand(tier, seed):
    """-Zunpretty=expanded of the family instances, split per module into normalised item token strings"""
    insts = [x for x in I.build(tier, seed) if 'family' in x and x['kind'] != 'reprauto']      # reprauto families are judged by acceptance and item rules only
    st = X.Stage('expand-%s-%d-%s' % (tier, seed, hashlib.sha256(json.dumps(insts, sort_keys=True).encode()).hexdigest()[:12]))
    def build(out):
        ws = X.scratch_dir('expand')
        try:
            I.write_workspace(ws, insts, repo=X.REPO, shards=4, crate_prefix='f')
            mods = {}
            errs = []
            for c in sorted({x['crate'] for x in insts}):
                p = X.run_cargo(ws, ['rustc', '--offline', '-p', c, '--lib', '--', '-Zunpretty=expanded', '-Awarnings'], toolchain='+nightly',
                                env_extra={'CARGO_TARGET_DIR': X.shared_target()})
                if p.returncode != 0:
                    errs.append({'crate': c, 'stderr': p.stderr[-2000:]})
                    continue
                fp = os.path.join(ws, c + '.expanded.rs')
                with open(fp, 'w') as f:
                    f.write(p.stdout)
                q = X.sh([X.TMPLX, '--expanded', fp])
                if q.returncode != 0:
                    errs.append({'crate': c, 'stderr': 'tmplx: ' + q.stderr[-1500:]})
                    continue
                mods.update(json.loads(q.stdout))
            with open(os.path.join(out, 'expanded.json'), 'w') as f:
                json.dump({'mods': mods, 'errors': errs, 'instances': insts}, f)
        finally:
            shutil.rmtree(ws, ignore_errors=True)
    d = st.ensure(build)
    with open(os.path.join(d, 'expanded.json')) as f:
        return st, json.load(f)
